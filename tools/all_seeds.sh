#!/bin/sh
# Regression over every seeded change: each must make its property's quick check exit 1 with a VIOLATION line.
# usage: tools/all_seeds.sh [pattern]    -> table on stdout
cd /verif
for d in seeded/${1:-*}; do
  [ -f $d/patch.diff ] || continue
  ID=$(basename $d | cut -d- -f1)
  R=$(tools/run_seed.sh $d $ID quick 2>&1 | head -1)
  echo "$(basename $d) $R"
done
