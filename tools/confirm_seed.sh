#!/bin/sh
# usage: tools/confirm_seed.sh <worktree> <seed dir>   -- confirms demo fails with / passes without the patch, and the 30 tests pass with it
WT=$1; SD=$2
export PYTHONPATH=$WT:/tmp/agentenv/shims:/tmp/agentenv/deps
cd $WT || exit 2
[ -f abacusnbody/version.py ] || cp /repo/abacusnbody/version.py abacusnbody/version.py
git checkout -q -- . 2>/dev/null
/venv/bin/python demo.py > /tmp/seed_demo_clean.txt 2>&1; CLEAN=$?
git apply $SD/patch.diff || { echo "patch does not apply"; exit 2; }
/venv/bin/python demo.py > /tmp/seed_demo_patched.txt 2>&1; PATCHED=$?
env -u ABACUSUTILS_VERIF /venv/bin/python -m pytest -q -p no:cacheprovider tests/test_util.py tests/test_tsc.py -k "not test_multi" > /tmp/seed_tests.txt 2>&1; T=$?
git checkout -q -- .
echo "demo clean exit=$CLEAN patched exit=$PATCHED tests exit=$T: $(tail -1 /tmp/seed_tests.txt)"
