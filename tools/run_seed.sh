#!/bin/sh
# usage: tools/run_seed.sh <seed dir> <ID> [tier]  -- applies the patch to /repo, runs the check, reverts
SD=$1; ID=$2; TIER=${3:-quick}
cd /verif
git -C /repo diff --quiet || { echo "/repo dirty"; exit 2; }
git -C /repo apply /verif/$SD/patch.diff || exit 2
cp evidence/$ID.json /tmp/ev_$ID.json 2>/dev/null
./check $ID --tier $TIER > /tmp/seedrun_$ID.txt 2>&1; RC=$?
git -C /repo checkout -- .
cp /tmp/ev_$ID.json evidence/$ID.json 2>/dev/null
echo "check $ID on $SD: exit=$RC"; grep -E "^(VIOLATION|DETAIL|KNOWN|NOTE|MACHINERY)" /tmp/seedrun_$ID.txt | head -8
