#!/bin/sh
# usage: tools/run_seed.sh <seed dir> <ID> [tier]
# Applies the seeded change to a scratch worktree of /repo (HEAD), runs the check against it (VERIF_REPO), removes the worktree.
# /repo itself is never modified.  The evidence file of the clean tree is preserved.
SD=$1; ID=$2; TIER=${3:-quick}
cd /verif
WT=/tmp/wt_seedrun_${ID}_$$
git -C /repo worktree add -q --detach $WT HEAD || exit 2
cp /repo/abacusnbody/version.py $WT/abacusnbody/version.py 2>/dev/null
cp -r /repo/abacusutils.egg-info $WT/ 2>/dev/null
git -C $WT apply /verif/$SD/patch.diff || { git -C /repo worktree remove --force $WT; exit 2; }
OUT=/tmp/seedrun_$(basename $SD)_$ID.txt
VERIF_REPO=$WT VERIF_EVIDENCE_DIR=/tmp/seed_evidence VERIF_REPLAY_DIR=/tmp/seed_replays ./check $ID --tier $TIER > $OUT 2>&1; RC=$?
git -C /repo worktree remove --force $WT
echo "check $ID on $SD: exit=$RC"; grep -E "^(VIOLATION|DETAIL|KNOWN|NOTE|MACHINERY)" $OUT | head -8
