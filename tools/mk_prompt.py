#!/usr/bin/env python3
"""usage: tools/mk_prompt.py <ID> <suffix>   -> writes /tmp/prompts/<ID><suffix>.txt for a seeding sub-agent (property text + what earlier seeds did).
The sub-agent gets nothing from /verif: the template and notes are copied to /tmp/agent_* first."""
import glob
import json
import os
import shutil
import sys

pid, sfx = sys.argv[1], sys.argv[2]
here = os.path.dirname(os.path.abspath(__file__))
for f in ('agent_catalog_notes.txt', 'agent_hod_notes.txt', 'agent_staging_notes.txt'):
    shutil.copy(os.path.join(here, 'agent', f), '/tmp/' + f)
prop = next(json.loads(l) for l in open(os.path.join(here, '..', 'properties.jsonl')) if json.loads(l)['id'] == pid)
text = (f'  "{prop["title"]}. {prop["statement"]}"\n  Quantified over: {prop["quantifier"]["text"]}\n  Relevant files: {", ".join(prop["anchors"]["files"])}\n'
        f'  What is meant to make it hold: ' + '; '.join(f'{m["name"]} ({m["where"]})' for m in prop['anchors']['mechanism']))
prev = []
for d in sorted(glob.glob(os.path.join(here, '..', 'seeded', pid + '-*'))):
    try:
        prev.append(json.load(open(os.path.join(d, 'meta.json')))['summary'][:330])
    except Exception:
        pass
hints = ('something the earlier experiments did NOT touch. Earlier experiments already used the following changes, so yours must be of a DIFFERENT kind, in a different function / code path / option '
         '(think of rarely used options and paths: the light-cone layout, passthrough mode, convert_units=False, float64, cleaned=False, odd sizes, the last element, empty inputs, a second call on '
         'the same object, state carried between two calls, mixed dtypes, non-contiguous arrays, an option combination nobody tests): ' + ' || '.join(prev))
t = open(os.path.join(here, 'agent', 'agent_prompt_template.txt')).read().replace('@ID@', pid + sfx).replace('@PROPERTY@', text).replace('@HINTS@', hints)
t = t.replace(f'"property":"{pid}{sfx}"', f'"property":"{pid}"')
if pid in ('C01', 'C02', 'C03', 'C05'):
    t += f'\n\nALSO read /tmp/agent_catalog_notes.txt (how to build synthetic halo catalogs here; replace XXX by {pid}{sfx}).\n'
if pid in ('C09', 'C10'):
    t += '\n\nALSO read /tmp/agent_hod_notes.txt (how to run the HOD generator here).\n'
if pid == 'C12':
    t += '\n\nALSO read /tmp/agent_staging_notes.txt (how to drive the staging code here).\n'
os.makedirs('/tmp/prompts', exist_ok=True)
open(f'/tmp/prompts/{pid}{sfx}.txt', 'w').write(t)
print(f'/tmp/prompts/{pid}{sfx}.txt', len(t))
