#!/bin/sh
# usage: tools/take_seed.sh <worktree-suffix e.g. C19b> <ID> <n>   -- collects the seed, runs the check against it, confirms it, removes the worktree
SFX=$1; ID=$2; N=$3
cd /verif
mkdir -p seeded/$ID-$N
cp /tmp/wt_$SFX/patch.diff /tmp/wt_$SFX/demo.py /tmp/wt_$SFX/meta.json seeded/$ID-$N/ || exit 2
for f in synth_catalog.py hodcommon.py; do [ -f /tmp/wt_$SFX/$f ] && cp /tmp/wt_$SFX/$f seeded/$ID-$N/; done
tools/run_seed.sh seeded/$ID-$N $ID | cut -c1-330 | head -5
(PYTHONPATH=/tmp/agentenv/helpers tools/confirm_seed.sh /tmp/wt_$SFX /verif/seeded/$ID-$N > /tmp/confirm_$SFX.txt 2>&1; git -C /repo worktree remove --force /tmp/wt_$SFX) &
