------------------------------------ MODULE PowerTable ------------------------------------
(* abacusnbody.analysis.power_spectrum.calc_power — the SCHEMA of the returned table as a function of the binning / multipole options
   (extended coverage, hosted by C13; the values are the subject of C08 and C13).

   Options:  kbins  None | an int n | an array of n + 1 edges          mubins  None | an int m | an array of m + 1 edges
             poles  None | an empty list | a list of p orders          squeeze_mu_axis, logk, a second field (pos2)
   Decision table (layer D = the documented return value; layer A = the code path: mubins None -> 1 bin and no mu columns,
   poles `or []`, squeeze only when exactly one mu bin):
     rows          nk = nmesh | n | n
     mu bins       nm = 1 | m | m
     columns       k_min k_max k_mid k_avg power N_mode  (+ poles N_mode_poles iff p > 0)  (+ mu_min mu_max mu_mid iff mubins was given)
     cell shape    power / N_mode / k_avg / mu_*:  scalar if squeeze and nm = 1, else nm values;  poles: p values;  N_mode_poles: scalar
     edges         int kbins: first edge 0 (linear) or just below 2 pi / L (log), last edge k_max = pi nmesh / L; arrays are used as given
     meta          Lbox logk paste nmesh compensated interlaced poles nthread N_pos is_weighted field_dtype squeeze_mu_axis (+ N_pos2 is_weighted2 iff pos2)  *)
EXTENDS Naturals, Sequences, SequencesExt, FiniteSets, TLC, Json, IOUtils

NMESH == 8
KOpts == {"none", "int", "array"}       \* int: 3 bins; array: 4 bins
MOpts == {"none", "int1", "int", "array", "array1"}      \* int1 / array1: exactly one mu bin GIVEN explicitly; int: 2 bins; array: 3 bins
POpts == {"none", "empty", "two"}       \* two: [0, 2]

NK(k) == CASE k = "none" -> NMESH [] k = "int" -> 3 [] k = "array" -> 4
NM(m) == CASE m = "none" -> 1 [] m = "int1" -> 1 [] m = "array1" -> 1 [] m = "int" -> 2 [] m = "array" -> 3
NP(p) == IF p = "two" THEN 2 ELSE 0

BaseCols == {"k_min", "k_max", "k_mid", "k_avg", "power", "N_mode"}
Cols(m, p) == BaseCols \cup (IF NP(p) > 0 THEN {"poles", "N_mode_poles"} ELSE {}) \cup (IF m # "none" THEN {"mu_min", "mu_max", "mu_mid"} ELSE {})
Squeezed(m, sq) == sq /\ NM(m) = 1
\* number of values per table row in a column (0 = scalar cell)
Cell(c, m, p, sq) == CASE c \in {"k_min", "k_max", "k_mid", "N_mode_poles"} -> 0
                       [] c = "poles" -> NP(p)
                       [] OTHER -> IF Squeezed(m, sq) THEN 0 ELSE NM(m)
BaseMeta == {"Lbox", "logk", "paste", "nmesh", "compensated", "interlaced", "poles", "nthread", "N_pos", "is_weighted", "field_dtype", "squeeze_mu_axis"}
Meta(two) == BaseMeta \cup (IF two THEN {"N_pos2", "is_weighted2"} ELSE {})

\* sanity of the table itself
Sane == /\ \A m \in MOpts, p \in POpts : BaseCols \subseteq Cols(m, p)
        /\ \A m \in MOpts, p \in POpts : ("poles" \in Cols(m, p)) <=> (p = "two")
        /\ \A m \in MOpts, p \in POpts, sq \in BOOLEAN : \A c \in Cols(m, p) \ {"k_min", "k_max", "k_mid", "N_mode_poles", "poles"} :
              Cell(c, m, p, sq) = Cell("power", m, p, sq)                          \* the mu columns always have the shape of the power column
        /\ \A m \in MOpts, p \in POpts : Cell("power", m, p, FALSE) = NM(m)       \* without squeezing the mu axis is always there

Emit(x) == JsonSerialize(IOEnv.CASES_OUT, SetToSeq({
    [k |-> k, m |-> m, p |-> p, sq |-> sq, logk |-> lg, two |-> tw, rows |-> NK(k), cols |-> SetToSeq(Cols(m, p)),
     cells |-> [c \in Cols(m, p) |-> Cell(c, m, p, sq)], meta |-> SetToSeq(Meta(tw))] :
    k \in KOpts, m \in MOpts, p \in POpts, sq \in BOOLEAN, lg \in BOOLEAN, tw \in BOOLEAN }))
==========================================================================================
