----------------------------------- MODULE ReadAsdf -----------------------------------
(* abacusnbody.data.read_abacus.read_asdf — property C16.  Layer D only: a decision table over
   the whole configuration space (which raw columns the file has, the colname / load arguments,
   the deprecated load_pos / load_vel flags), giving either Error or the exact set of table columns.
   Values and row counts are judged by the harness against the direct decoders (C04 / C15). *)
EXTENDS Naturals, Sequences, SequencesExt, FiniteSets, TLC, Json, IOUtils

Known == {"rvint", "pack9", "packedpid", "pid"}
Raw == Known \cup {"other"}
PosVel == {"pos", "vel"}
PidCols == {"pid", "lagr_pos", "tagged", "density", "lagr_idx", "aux"}
NoLoad == {"<none>"}          \* the load argument left at None (a set, so that it compares with the other loads)

Loadable(col) == IF col \in {"rvint", "pack9"} THEN PosVel ELSE IF col \in {"packedpid", "pid"} THEN PidCols ELSE {}
Default(col) == IF col \in {"rvint", "pack9"} THEN PosVel ELSE {"pid"}

\* which raw column is decoded: auto-detection needs exactly one known column; an explicit name must exist
Detected(present, colname) ==
    IF colname = "none"
    THEN (IF Cardinality(present \cap Known) = 1 THEN CHOOSE c \in present \cap Known : TRUE ELSE "error")
    ELSE (IF colname \in present THEN colname ELSE "error")

\* deprecated flags (only consulted when load is not given): an explicit True means present, an explicit
\* False means absent; the documentation fixes nothing for a flag left unset next to an explicit one
FlagSets(lp, lv) ==
    LET posS == IF lp = "T" THEN {TRUE} ELSE IF lp = "F" THEN {FALSE} ELSE {TRUE, FALSE}
        velS == IF lv = "T" THEN {TRUE} ELSE IF lv = "F" THEN {FALSE} ELSE {TRUE, FALSE}
    IN { (IF p THEN {"pos"} ELSE {}) \cup (IF v THEN {"vel"} ELSE {}) : p \in posS, v \in velS }

\* acceptable column sets (a singleton except for the under-specified deprecated combinations)
Columns(col, load, lp, lv) ==
    IF load # NoLoad THEN {load \cap Loadable(col)}
    ELSE IF lp = "unset" /\ lv = "unset" THEN {Default(col)}
    ELSE { s \cap Loadable(col) : s \in FlagSets(lp, lv) }

Outcome(present, colname, load, lp, lv) ==
    LET col == Detected(present, colname) IN
    IF col = "error" THEN [error |-> TRUE, col |-> "", cols |-> <<>>]
    ELSE [error |-> FALSE, col |-> col,
          cols |-> SetToSeq({ SetToSeq(s) : s \in Columns(col, load, lp, lv) })]

\* --- the configuration space (requests for columns the detected raw column cannot provide are pruned)
Presents == { p \in SUBSET Raw : p # {} }
Loads(col) == {NoLoad} \cup (IF col \in {"rvint", "pack9"} THEN SUBSET PosVel ELSE SUBSET PidCols)
Flags == {"unset", "T", "F"}
Configs ==
    { [present |-> p, colname |-> cn, load |-> ld, lp |-> lp, lv |-> lv] :
        <<p, cn, ld, lp, lv>> \in
          { t \in Presents \X (Known \cup {"none"}) \X (UNION { Loads(c) : c \in Known }) \X Flags \X Flags :
              LET col == Detected(t[1], t[2]) IN
              /\ (col # "error" => t[3] \in Loads(col))
              /\ (col = "error" => t[3] = NoLoad /\ t[4] = "unset" /\ t[5] = "unset")
              \* deprecated flags concern pos/vel files only; with an explicit load they are ignored (keep a few)
              /\ ((t[4] # "unset" \/ t[5] # "unset") => (col \in {"rvint", "pack9"} /\ (t[3] = NoLoad \/ t[3] = {"pos"}))) } }
\* sanity theorems of the table
TableTheorems ==
    /\ \A c \in Configs : LET o == Outcome(c.present, c.colname, c.load, c.lp, c.lv) IN
          /\ (c.colname = "none" /\ Cardinality(c.present \cap Known) # 1) => o.error
          /\ (~o.error /\ c.load # NoLoad) => (Len(o.cols) = 1 /\ ToSet(o.cols[1]) = c.load)
          /\ (~o.error) => Len(o.cols) >= 1
Emit(x) == JsonSerialize(IOEnv.CASES_OUT,
             SetToSeq({ [present |-> SetToSeq(c.present), colname |-> c.colname,
                         load |-> IF c.load = NoLoad THEN <<"<none>">> ELSE SetToSeq(c.load),
                         lp |-> c.lp, lv |-> c.lv,
                         out |-> Outcome(c.present, c.colname, c.load, c.lp, c.lv)] : c \in Configs }))
=======================================================================================
