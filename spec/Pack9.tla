------------------------------------ MODULE Pack9 ------------------------------------
(* abacusnbody.data.pack9 — property C15.

   A record is 9 bytes carrying six 12-bit fields f0..f5:
       f0 = b0*16 + (b1 mod 16)      f1 = (b1 div 16)*256 + b2
       f2 = b3*16 + (b4 mod 16)      f3 = (b4 div 16)*256 + b5
       f4 = b6*16 + (b7 mod 16)      f5 = (b7 div 16)*256 + b8
   A record whose first byte is 0xFF is a cell header: cpd = f1 - 48, velocity scale vs = f2 - 48,
   cell index (f3, f4, f5) - 48 (all fields are stored with the 2048 bias and a +2000 offset).
   Any other record is a particle relative to the most recent header:
       position_axis = (f - 2048) + 2000*cell + 1000 - 1000*cpd     in units of BoxSize/(2000*cpd)
       velocity_axis = (f - 2048) * vs                               in units of velz*0.0005/cpd
   Layer D only (decode is a fold over the stream); theorem: Expand is a bijection of the 72 bits. *)
EXTENDS Naturals, Integers, Sequences, SequencesExt, FiniteSets, TLC, Json, IOUtils

Expand(b) == << b[1] * 16 + (b[2] % 16), (b[2] \div 16) * 256 + b[3],
                b[4] * 16 + (b[5] % 16), (b[5] \div 16) * 256 + b[6],
                b[7] * 16 + (b[8] % 16), (b[8] \div 16) * 256 + b[9] >>
\* inverse: fields -> bytes
Pack(f) == << f[1] \div 16, (f[1] % 16) + 16 * (f[2] \div 256), f[2] % 256,
              f[3] \div 16, (f[3] % 16) + 16 * (f[4] \div 256), f[4] % 256,
              f[5] \div 16, (f[5] % 16) + 16 * (f[6] \div 256), f[6] % 256 >>
IsHeader(b) == b[1] = 255
Patterns == { <<0, 0, 0, 0, 0, 0>>, <<4079, 4095, 4095, 4095, 4095, 4095>>, <<1365, 2730, 1365, 2730, 1365, 2730>>,
              <<2048, 2048, 2048, 2048, 2048, 2048>>, <<4000, 48, 3000, 2047, 2049, 1>> }
\* one field sweeps all 4096 values (field 0 below 0xFF0 so that the record is not a header)
SweepFields == { [p EXCEPT ![k] = v] : p \in Patterns, k \in 1..6, v \in 0..4095 }
ParticleFields == { f \in SweepFields : f[1] < 4080 }
NibbleBijection == /\ \A f \in SweepFields : Expand(Pack(f)) = f /\ \A j \in 1..9 : Pack(f)[j] \in 0..255
             /\ \A f \in SweepFields : IsHeader(Pack(f)) = (f[1] >= 4080)

(* decode a stream (sequence of 9-byte records) *)
HeaderOf(f) == [cpd |-> f[2] - 48, vs |-> f[3] - 48, cell |-> <<f[4] - 48, f[5] - 48, f[6] - 48>>]
PartOf(f, h) == [pos |-> [a \in 1..3 |-> (f[a] - 2048) + 2000 * h.cell[a] + 1000 - 1000 * h.cpd],
                 vel |-> [a \in 1..3 |-> (f[a + 3] - 2048) * h.vs],
                 cpd |-> h.cpd]
NoHeader == [cpd |-> 0, vs |-> 0, cell |-> <<0, 0, 0>>]
Decode(stream) ==
    LET step(acc, b) == IF IsHeader(b) THEN [acc EXCEPT !.h = HeaderOf(Expand(b))]
                        ELSE [acc EXCEPT !.out = Append(acc.out, PartOf(Expand(b), acc.h))]
    IN FoldLeft(step, [h |-> NoHeader, out |-> <<>>], stream).out

\* M2: single-particle cases (header + one particle) and header/particle interleavings
Headers == { <<4090, 48 + c[1], 48 + c[2], 48 + c[3], 48 + c[4], 48 + c[5]>> :
               c \in { <<3, 1000, 0, 1, 2>>, <<5, 2000, 4, 4, 4>>, <<125, 700, 124, 0, 63>>, <<1701, 1536, 1700, 850, 3>>, <<1, 1, 0, 0, 0>> } }
SingleCases == { [stream |-> <<Pack(h), Pack(f)>>, out |-> Decode(<<Pack(h), Pack(f)>>)] :
                   h \in { hh \in Headers : hh[2] \in {48 + 3, 48 + 125} }, f \in ParticleFields }
PartsSmall == { <<100, 2048, 4095, 0, 2048, 4095>>, <<2048, 2048, 2048, 2048, 2048, 2048>>, <<4079, 0, 1, 2047, 2049, 4000>> }
RECURSIVE Words(_)
Words(n) == IF n = 0 THEN {<<>>} ELSE { Append(w, x) : w \in Words(n - 1), x \in {"H1", "H2", "H3", "P1", "P2"} }
Rec(sym) == CASE sym = "H1" -> Pack(<<4090, 48 + 3, 48 + 1000, 48, 49, 50>>)
              [] sym = "H2" -> Pack(<<4095, 48 + 126, 48 + 700, 48 + 124, 48, 48 + 63>>)      \* an EVEN cells-per-dimension (H1: odd)
              [] sym = "H3" -> Pack(<<4080, 48 + 3, 48 + 1200, 50, 48, 49>>)      \* same cells-per-dimension as H1, other velocity scale / cell
              [] sym = "P1" -> Pack(<<100, 2048, 4095, 0, 2048, 4095>>)
              [] sym = "P2" -> Pack(<<4079, 0, 1, 2047, 2049, 4000>>)
StreamCases(maxlen) == { [stream |-> [k \in 1..(Len(w) + 1) |-> IF k = 1 THEN Rec("H1") ELSE Rec(w[k - 1])],
                          out |-> Decode([k \in 1..(Len(w) + 1) |-> IF k = 1 THEN Rec("H1") ELSE Rec(w[k - 1])])] :
                            w \in UNION { Words(n) : n \in 0..maxlen } }
\* one particle per non-header record, in stream order; headers emit nothing
CountTheorem(maxlen) == \A c \in StreamCases(maxlen) :
                           Len(c.out) = Cardinality({ k \in 1..Len(c.stream) : ~IsHeader(c.stream[k]) })
Emit(maxlen) == JsonSerialize(IOEnv.CASES_OUT, [single |-> SetToSeq(SingleCases), streams |-> SetToSeq(StreamCases(maxlen))])
======================================================================================
