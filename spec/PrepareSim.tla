----------------------------------- MODULE PrepareSim -----------------------------------
(* abacusnbody.hod.prepare_sim.prepare_slab — extended coverage (hosted by C12): the subsample compaction that writes the
   HDF5 slabs AbacusHOD.staging reads.

   Input (one halo_info slab as loaded by CompaSOHaloCatalog): halos in table order, halo j owning the particle slice
   [start_j, start_j + n_j) of the loaded subsample array of P particles (slices disjoint and in halo order — C01; unowned
   particles may sit between them); alive_j = (N > 0) (cleaned catalogs drop the others); keep_j = the halo subsample mask;
   sub_j \subseteq 1..n_j = the particle submask of a kept halo.
   Layer A : the loop of prepare_slab, one Step per halo: particle mask written through the slice, running `start_tracker`,
             new npstartA / npoutA (-1 / -1 for halos without particles or not kept), per-particle host id and Np.
   Layer D : the halo file holds the kept halos in order; the particle file holds, for each kept halo with particles and in halo
             order, exactly its selected particles in order; rows [npstartA, npstartA + npoutA) of the particle file are the halo's
             particles, each carrying the halo's id and Np = npoutA; no other rows exist.
   Mut     : positive controls — "countall" (tracker advanced by n instead of the number selected), "startafter" (npstartA taken
             after the tracker update), "keepall" (particles of dropped halos are not masked out).
   File-name contract with the reader (AbacusHOD.staging): Writer / Reader names agree exactly when the seed is 600 and both sides
   derive the same multi-tracer flag.                                                                                        *)
EXTENDS Naturals, Integers, Sequences, SequencesExt, FiniteSets, FiniteSetsExt, TLC, Json, IOUtils

CONSTANT Mut

Card(S) == Cardinality(S)
Rows(hs) == { j \in 1..Len(hs) : hs[j].alive }                       \* halos = halos[halos['N'] > 0]

\* ---------------- layer A
A0(P) == [mask |-> [p \in 1..P |-> 0], hid |-> [p \in 1..P |-> -1], np |-> [p \in 1..P |-> -1], tracker |-> 0, ns |-> <<>>, nn |-> <<>>]
Step(s, h) ==
    IF ~h.alive THEN s
    ELSE IF h.keep /\ h.n > 0 THEN
        LET k == Card(h.sub)
            slice == (h.start + 1)..(h.start + h.n)
            adv == IF Mut = "countall" THEN h.n ELSE k
        IN [mask |-> [p \in DOMAIN s.mask |-> IF p \in slice THEN (IF (p - h.start) \in h.sub THEN 1 ELSE 0) ELSE s.mask[p]],
            hid |-> [p \in DOMAIN s.hid |-> IF p \in slice THEN h.id ELSE s.hid[p]],
            np |-> [p \in DOMAIN s.np |-> IF p \in slice THEN k ELSE s.np[p]],
            tracker |-> s.tracker + adv,
            ns |-> Append(s.ns, IF Mut = "startafter" THEN s.tracker + adv ELSE s.tracker),
            nn |-> Append(s.nn, k)]
    ELSE [s EXCEPT !.ns = Append(s.ns, -1), !.nn = Append(s.nn, -1),
                   !.mask = IF Mut = "keepall" /\ ~h.keep THEN [p \in DOMAIN s.mask |-> IF p \in (h.start + 1)..(h.start + h.n) THEN 1 ELSE s.mask[p]] ELSE s.mask]
RECURSIVE Loop(_, _, _)
Loop(s, hs, j) == IF j > Len(hs) THEN s ELSE Loop(Step(s, hs[j]), hs, j + 1)
\* outputs: halo file = kept rows; particle file = masked particles in array order
OutA(hs, P) ==
    LET s == Loop(A0(P), hs, 1)
        rows == SetToSortSeq(Rows(hs), <)
        kept == SelectSeq([r \in 1..Len(rows) |-> [id |-> hs[rows[r]].id, ns |-> s.ns[r], nn |-> s.nn[r], keep |-> hs[rows[r]].keep]], LAMBDA x : x.keep)
        ps == SetToSortSeq({ p \in 1..P : s.mask[p] = 1 }, <)
    IN [halofile |-> [r \in 1..Len(kept) |-> [id |-> kept[r].id, ns |-> kept[r].ns, nn |-> kept[r].nn]],
        partfile |-> [r \in 1..Len(ps) |-> [tok |-> ps[r], hid |-> s.hid[ps[r]], np |-> s.np[ps[r]]]]]

\* ---------------- layer D
Selected(h) == SetToSortSeq({ h.start + q : q \in h.sub }, <)
RECURSIVE PartsD(_, _)
PartsD(hs, j) == IF j > Len(hs) THEN <<>>
                 ELSE LET h == hs[j] IN
                      (IF h.alive /\ h.keep /\ h.n > 0 THEN [r \in 1..Card(h.sub) |-> [tok |-> Selected(h)[r], hid |-> h.id, np |-> Card(h.sub)]] ELSE <<>>) \o PartsD(hs, j + 1)
RECURSIVE HalosD(_, _, _)
HalosD(hs, j, before) ==
    IF j > Len(hs) THEN <<>>
    ELSE LET h == hs[j] IN
         IF h.alive /\ h.keep THEN
             (IF h.n > 0 THEN <<[id |-> h.id, ns |-> before, nn |-> Card(h.sub)]>> ELSE <<[id |-> h.id, ns |-> -1, nn |-> -1]>>)
             \o HalosD(hs, j + 1, IF h.n > 0 THEN before + Card(h.sub) ELSE before)
         ELSE HalosD(hs, j + 1, before)
OutD(hs, P) == [halofile |-> HalosD(hs, 1, 0), partfile |-> PartsD(hs, 1)]
\* the slices of every halo row index the particle file correctly
SlicesOK(out) == \A r \in 1..Len(out.halofile) :
                    LET hr == out.halofile[r] IN
                    hr.nn >= 0 => /\ hr.ns >= 0 /\ hr.ns + hr.nn <= Len(out.partfile)
                                  /\ \A q \in (hr.ns + 1)..(hr.ns + hr.nn) : out.partfile[q].hid = hr.id /\ out.partfile[q].np = hr.nn
Partitioned(out) == \A q \in 1..Len(out.partfile) :
                       Card({ r \in 1..Len(out.halofile) : out.halofile[r].nn >= 0 /\ q > out.halofile[r].ns /\ q <= out.halofile[r].ns + out.halofile[r].nn }) = 1

\* ---------------- inputs: halos with slices in order (gap before each), sub-masks, keep / alive flags
HaloChoices(MaxN) == { [gap |-> g, n |-> n, alive |-> a, keep |-> k, sub |-> sb] :
                          g \in 0..1, n \in 0..MaxN, a \in BOOLEAN, k \in BOOLEAN, sb \in SUBSET (1..MaxN) }
ValidChoice(c) == c.sub \subseteq 1..c.n /\ (~c.alive => (c.n = 0 /\ c.keep)) /\ ((~c.keep \/ c.n = 0) => c.sub = {})
HChoices(MaxN) == { c \in HaloChoices(MaxN) : ValidChoice(c) }
RECURSIVE Place(_, _, _)
Place(cs, j, off) == IF j > Len(cs) THEN <<>>
                     ELSE <<[id |-> 100 + j, start |-> off + cs[j].gap, n |-> cs[j].n, alive |-> cs[j].alive, keep |-> cs[j].keep, sub |-> cs[j].sub]>>
                          \o Place(cs, j + 1, off + cs[j].gap + cs[j].n)
RECURSIVE TotalP(_)
TotalP(cs) == IF cs = <<>> THEN 0 ELSE cs[1].gap + cs[1].n + TotalP(Tail(cs))
Inputs(MaxH, MaxN) == UNION { [1..H -> HChoices(MaxN)] : H \in 0..MaxH }
AgreeAll(MaxH, MaxN) == \A cs \in Inputs(MaxH, MaxN) :
                           LET hs == Place(cs, 1, 0)  P == TotalP(cs) + 1  a == OutA(hs, P) IN
                           a = OutD(hs, P) /\ SlicesOK(a) /\ Partitioned(a)
Disagree(MaxH, MaxN) == { cs \in Inputs(MaxH, MaxN) : LET hs == Place(cs, 1, 0)  P == TotalP(cs) + 1  a == OutA(hs, P) IN
                                                        ~(a = OutD(hs, P) /\ SlicesOK(a) /\ Partitioned(a)) }
\* M2: mask patterns to replay into the real prepare_slab (no gaps here: the layout comes from the catalogue the harness writes)
EmitChoices(MaxN) == { c \in HChoices(MaxN) : c.gap = 0 }
Emit(MaxH, MaxN) == JsonSerialize(IOEnv.CASES_OUT,
    SetToSeq({ [halos |-> [j \in 1..Len(cs) |-> [n |-> cs[j].n, alive |-> cs[j].alive, keep |-> cs[j].keep, sub |-> SetToSortSeq(cs[j].sub, <)]]] :
               cs \in UNION { [1..H -> EmitChoices(MaxN)] : H \in 0..MaxH } }))

\* ---------------- M3: runs observed on the real prepare_slab: [halos |-> <<[id, start, n, alive, keep, sub]>>, P, halofile, partfile]
RunOK(r) == LET hs == [j \in 1..Len(r.halos) |-> [id |-> r.halos[j].id, start |-> r.halos[j].start, n |-> r.halos[j].n, alive |-> r.halos[j].alive,
                                                  keep |-> r.halos[j].keep, sub |-> ToSet(r.halos[j].sub)]]
                got == [halofile |-> r.halofile, partfile |-> r.partfile]
            IN got = OutD(hs, r.P) /\ got = OutA(hs, r.P) /\ SlicesOK(got) /\ Partitioned(got)
Verdict(x) == LET runs == JsonDeserialize(IOEnv.TRACE_FILE) IN [bad |-> SetToSeq({ i \in 1..Len(runs) : ~RunOK(runs[i]) }), n |-> Len(runs)]
EmitVerdict(x) == JsonSerialize(IOEnv.VERDICT_OUT, Verdict(x))

\* ---------------- file-name contract writer (prepare_slab) / reader (AbacusHOD.staging)
Writer(i, seed, mt, ranks) == <<"xcom", i, "seed", seed, IF mt THEN "MT" ELSE "", IF ranks THEN "withranks" ELSE "", "new.h5">>
Reader(i, mt, ranks) == <<"xcom", i, "seed", 600, IF mt THEN "MT" ELSE "", IF ranks THEN "withranks" ELSE "", "new.h5">>
WriterMT(flags) == flags.ELG \/ flags.QSO
ReaderMT(flags, force) == flags.ELG \/ flags.QSO \/ force
NameContract == \A flags \in [LRG : BOOLEAN, ELG : BOOLEAN, QSO : BOOLEAN] : \A force \in BOOLEAN : \A ranks \in BOOLEAN : \A seed \in {600, 601} :
                   (Writer(3, seed, WriterMT(flags), ranks) = Reader(3, ReaderMT(flags, force), ranks)) <=> (seed = 600 /\ (force => WriterMT(flags)))
=========================================================================================
