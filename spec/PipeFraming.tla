---------------------------------- MODULE PipeFraming ----------------------------------
(* abacusnbody.data.pipe_asdf.unpack_to_pipe — property C20.

   A file is a function from field names to [n |-> number of elements, w |-> item width in bytes]
   (fields it lacks are outside its domain); a request is a sequence of field names.
   Layer D: the byte stream is, per requested field in request order,
              Int64(total elements over the files)  Int32(item width)  payload(file 1) ... payload(file k)
            and a missing file or a field missing from any file is an error with ZERO bytes written.
   Tokens abstract the stream: <<"count", N, 8, field>>, <<"width", w, 4, field>>, <<"payload", file index, nbytes, field>>.
   Layer T (PipeTrace): write events recorded from the real code are compared with the tokens. *)
EXTENDS Naturals, Sequences, SequencesExt, FiniteSets, TLC, Json, IOUtils

RECURSIVE SumOver(_, _, _)
SumOver(files, f, k) == IF k = 0 THEN 0 ELSE SumOver(files, f, k - 1) + files[k][f].n

HasAll(files, fields) == \A k \in 1..Len(files) : \A j \in 1..Len(fields) : fields[j] \in DOMAIN files[k]

FieldTokens(files, f) ==
    << <<"count", SumOver(files, f, Len(files)), 8, f>>, <<"width", files[Len(files)][f].w, 4, f>> >>
    \o [k \in 1..Len(files) |-> <<"payload", k, files[k][f].n * files[k][f].w, f>>]

RECURSIVE Tokens(_, _)
Tokens(files, fields) == IF fields = <<>> THEN <<>>
                         ELSE FieldTokens(files, Head(fields)) \o Tokens(files, Tail(fields))

\* exists[k] = FALSE models a path that is not a file
Expected(files, exists, fields) ==
    IF \E k \in 1..Len(files) : ~exists[k] THEN [error |-> "FileNotFoundError", tokens |-> <<>>]
    ELSE IF ~HasAll(files, fields) THEN [error |-> "ValueError", tokens |-> <<>>]
    ELSE [error |-> "", tokens |-> Tokens(files, fields)]

\* theorems on D
TotalBytes(toks) == LET S[k \in 0..Len(toks)] == IF k = 0 THEN 0 ELSE S[k - 1] + toks[k][3] IN S[Len(toks)]
FramingTheorem(files, fields) ==
    HasAll(files, fields) =>
       /\ Len(Tokens(files, fields)) = Len(fields) * (2 + Len(files))
       /\ TotalBytes(Tokens(files, fields)) =
            LET S[j \in 0..Len(fields)] == IF j = 0 THEN 0 ELSE S[j - 1] + 12 +
                    (LET P[k \in 0..Len(files)] == IF k = 0 THEN 0 ELSE P[k - 1] + files[k][fields[j]].n * files[k][fields[j]].w IN P[Len(files)])
            IN S[Len(fields)]

(* M2 enumeration: file templates and requests *)
FA(k) == [n |-> 3 + k, w |-> 4]        \* 1-D float32 column, length differs per file
FB(k) == [n |-> 6 * k, w |-> 8]        \* (k*2, 3) float64 column -> elements, not rows
FC(k) == [n |-> 0, w |-> 2]            \* empty int16 column
FD(k) == [n |-> 5, w |-> 1]
Full(k) == [f \in {"a", "b", "c", "d"} |-> CASE f = "a" -> FA(k) [] f = "b" -> FB(k) [] f = "c" -> FC(k) [] f = "d" -> FD(k)]
Lacking(k, g) == [f \in {"a", "b", "c", "d"} \ {g} |-> Full(k)[f]]
FileSets == { <<Full(1)>>, <<Full(1), Full(2)>>, <<Full(2), Full(1), Full(3)>>, <<Full(1), Lacking(2, "b")>>, <<Lacking(1, "a"), Full(2)>>, <<Full(3), Full(3)>> }
RECURSIVE Requests(_)
Requests(n) == IF n = 0 THEN {<<>>} ELSE LET S == Requests(n - 1) IN
               S \cup { Append(r, f) : r \in { q \in S : Len(q) = n - 1 }, f \in {"a", "b", "c", "d", "zz"} }
Cases(maxreq) ==
    { [files |-> fs, exists |-> ex, fields |-> rq, out |-> Expected(fs, ex, rq)] :
        <<fs, ex, rq>> \in UNION { { <<fs, ex, rq>> : ex \in { [k \in 1..Len(fs) |-> TRUE], [k \in 1..Len(fs) |-> k # Len(fs)] },
                                                        rq \in Requests(maxreq) \ {<<>>} } : fs \in FileSets } }
CasesTheorem(maxreq) == \A c \in Cases(maxreq) : (\A k \in 1..Len(c.files) : c.exists[k]) => FramingTheorem(c.files, c.fields)
\* files are emitted as sequences of <<field, n, w>> triples (records with varying domains do not serialise uniformly)
FileAsSeq(f) == SetToSeq({ <<g, f[g].n, f[g].w>> : g \in DOMAIN f })
Emit(maxreq) == JsonSerialize(IOEnv.CASES_OUT,
                  SetToSeq({ [files |-> [k \in 1..Len(c.files) |-> FileAsSeq(c.files[k])], exists |-> c.exists, fields |-> c.fields, out |-> c.out] : c \in Cases(maxreq) }))
========================================================================================
