---------------------------------- MODULE CatalogIndex ----------------------------------
(* abacusnbody.data.compaso_halo_catalog — properties C01 (each halo row indexes exactly its own
   subsample particles) and C03 (superslab concatenation and filter_func commute with loading).

   Abstract catalog: a sequence of superslabs, each a sequence of halos
       [nA, gA, mA, hA, nB, gB, mB, hB, away]
   n = particles of the halo in the slab's subsample file, g = unindexed (L0) particles preceding them
   there, m = merged-in particles in the cleaning file, h = unrelated particles preceding them there,
   away = the halo was cleaned away (N_total = 0).  A particle is the token <<slab, AB, kind, position>>
   (kind "o" = original file, "m" = cleaning file): tokens are unique, so any particle delivered to the
   wrong halo, twice, or not at all is visible.

   Layer D : ExpectedSlice / ExpectedTable / ExpectedIndex for a row mask (filter) and loader options.
   Layer A : the loader's algorithm — per-file compaction of kept rows, running-sum re-indexing with
             the total carried from A into B, zeroing of cleaned-away counts, and the
             (A|B) x file x halo zipper (read original slice, write, then merged slice at woff = npout)
             — with every read checked against its file length and every write against its halo's
             output range (InBounds), and every output slot written exactly once.
   Mut selects deliberately broken variants of layer A (positive controls).                        *)
EXTENDS Naturals, Integers, Sequences, SequencesExt, FiniteSets, TLC, Json, IOUtils

CONSTANT Mut     \* "none" | "nocarry" | "mergebefore" | "noaway" | "prefilter"

Nn(h, AB) == IF AB = "A" THEN h.nA ELSE h.nB
Gg(h, AB) == IF AB = "A" THEN h.gA ELSE h.gB
Mm(h, AB) == IF AB = "A" THEN h.mA ELSE h.mB
Hh(h, AB) == IF AB = "A" THEN h.hA ELSE h.hB

(* ---- file layouts (0-based positions) ---- *)
RECURSIVE OEnd(_, _, _)
OEnd(sl, k, AB) == IF k = 0 THEN 0 ELSE OEnd(sl, k - 1, AB) + Gg(sl[k], AB) + Nn(sl[k], AB)
OStart(sl, k, AB) == OEnd(sl, k - 1, AB) + Gg(sl[k], AB)
RECURSIVE MEnd(_, _, _)
MEnd(sl, k, AB) == IF k = 0 THEN 0 ELSE MEnd(sl, k - 1, AB) + Hh(sl[k], AB) + Mm(sl[k], AB)
MStart(sl, k, AB) == MEnd(sl, k - 1, AB) + Hh(sl[k], AB)
OFileLen(sl, AB) == OEnd(sl, Len(sl), AB)
MFileLen(sl, AB) == MEnd(sl, Len(sl), AB)

(* ---------------- Layer D ---------------- *)
OrigToks(cat, s, k, AB) == [t \in 1..Nn(cat[s][k], AB) |-> <<s, AB, "o", OStart(cat[s], k, AB) + t - 1>>]
MergeToks(cat, s, k, AB) == [t \in 1..Mm(cat[s][k], AB) |-> <<s, AB, "m", MStart(cat[s], k, AB) + t - 1>>]
ExpectedSlice(cat, s, k, AB, cleaned) ==
    (IF cleaned /\ cat[s][k].away THEN <<>> ELSE OrigToks(cat, s, k, AB))
    \o (IF cleaned THEN MergeToks(cat, s, k, AB) ELSE <<>>)
\* rows in file order; mask[s][k] says whether the filter keeps the row
AllRows(cat) == FlattenSeq([s \in 1..Len(cat) |-> [k \in 1..Len(cat[s]) |-> <<s, k>>]])
Kept(cat, mask) == SelectSeq(AllRows(cat), LAMBDA r : mask[r[1]][r[2]])
TableOf(cat, mask, AB, cleaned) ==
    FlattenSeq([i \in 1..Len(Kept(cat, mask)) |-> ExpectedSlice(cat, Kept(cat, mask)[i][1], Kept(cat, mask)[i][2], AB, cleaned)])
ExpectedTable(cat, mask, ABs, cleaned) == FlattenSeq([a \in 1..Len(ABs) |-> TableOf(cat, mask, ABs[a], cleaned)])
\* <<start, count>> per kept row and requested subsample (0-based start into the subsample table)
ExpectedIndex(cat, mask, ABs, cleaned) ==
    LET rows == Kept(cat, mask)
        lenOf(a, i) == Len(ExpectedSlice(cat, rows[i][1], rows[i][2], ABs[a], cleaned))
        \* linear position of (a, i) in A-then-B order
        start[a \in 1..Len(ABs), i \in 1..(Len(rows) + 1)] ==
            IF i = 1 THEN (IF a = 1 THEN 0 ELSE start[a - 1, Len(rows) + 1])
            ELSE start[a, i - 1] + lenOf(a, i - 1)
    IN [a \in 1..Len(ABs) |-> [i \in 1..Len(rows) |-> <<start[a, i], lenOf(a, i)>>]]
\* D-level theorems: slices are contiguous, disjoint, in row order, A before B, and tile the table
IndexTheorem(cat, mask, ABs, cleaned) ==
    LET ix == ExpectedIndex(cat, mask, ABs, cleaned)
        tab == ExpectedTable(cat, mask, ABs, cleaned)
        rows == Kept(cat, mask)
    IN /\ \A a \in 1..Len(ABs) : \A i \in 1..Len(rows) :
             SubSeq(tab, ix[a][i][1] + 1, ix[a][i][1] + ix[a][i][2]) = ExpectedSlice(cat, rows[i][1], rows[i][2], ABs[a], cleaned)
       /\ Cardinality({ tab[p] : p \in 1..Len(tab) }) = Len(tab)              \* no particle twice
       /\ (Len(rows) > 0 => ix[Len(ABs)][Len(rows)][1] + ix[Len(ABs)][Len(rows)][2] = Len(tab))
\* C03: loading files F equals the concatenation of loading each file alone (mask = keep everything in one slab)
ConcatTheorem(cat, ABs, cleaned) ==
    LET all == [s \in 1..Len(cat) |-> [k \in 1..Len(cat[s]) |-> TRUE]]
        only(s0) == [s \in 1..Len(cat) |-> [k \in 1..Len(cat[s]) |-> s = s0]]
    IN \A a \in 1..Len(ABs) :
          TableOf(cat, all, ABs[a], cleaned) = FlattenSeq([s0 \in 1..Len(cat) |-> TableOf(cat, only(s0), ABs[a], cleaned)])

(* ---------------- Layer A ---------------- *)
\* the halo table after loading + per-file compaction: one record per kept row
RowRec(cat, r) == LET h == cat[r[1]][r[2]] IN
    [s |-> r[1], k |-> r[2], away |-> h.away,
     startA |-> OStart(cat[r[1]], r[2], "A"), outA |-> h.nA, mstartA |-> MStart(cat[r[1]], r[2], "A"), moutA |-> h.mA,
     startB |-> OStart(cat[r[1]], r[2], "B"), outB |-> h.nB, mstartB |-> MStart(cat[r[1]], r[2], "B"), moutB |-> h.mB]
RStart(rec, AB) == IF AB = "A" THEN rec.startA ELSE rec.startB
ROut(rec, AB) == IF AB = "A" THEN rec.outA ELSE rec.outB
RMStart(rec, AB) == IF AB = "A" THEN rec.mstartA ELSE rec.mstartB
RMOut(rec, AB) == IF AB = "A" THEN rec.moutA ELSE rec.moutB
\* npout after `halos[npoutAB][cleaned_mask] = 0`
ReadLen(rec, AB, cleaned) == IF cleaned /\ rec.away /\ Mut # "noaway" THEN 0 ELSE ROut(rec, AB)
MergeLen(rec, AB, cleaned) == IF cleaned THEN RMOut(rec, AB) ELSE 0
\* running-sum re-indexing: npstart_new[a][i], i = 1..n+1, total of A carried into B
NewStarts(tab, ABs, cleaned) ==
    LET n == Len(tab)
        ns[a \in 1..Len(ABs), i \in 1..(n + 1)] ==
            IF i = 1 THEN (IF a = 1 \/ Mut = "nocarry" THEN 0 ELSE ns[a - 1, n + 1])
            ELSE ns[a, i - 1] + ReadLen(tab[i - 1], ABs[a], cleaned) + MergeLen(tab[i - 1], ABs[a], cleaned)
    IN [a \in 1..Len(ABs) |-> [i \in 1..(n + 1) |-> ns[a, i]]]
\* halo_file_offsets: kept rows per file (or, for the broken variant, pre-filter counts)
FileOffsets(cat, mask) ==
    LET cnt(s) == IF Mut = "prefilter" THEN Len(cat[s]) ELSE Cardinality({ k \in 1..Len(cat[s]) : mask[s][k] })
        off[s \in 0..Len(cat)] == IF s = 0 THEN 0 ELSE off[s - 1] + cnt(s)
    IN [s \in 1..(Len(cat) + 1) |-> off[s - 1]]

\* the zipper: st = [out, writes, oob]; out/writes are functions on 1..Total
ZipRow(st, cat, tab, ns, a, AB, file, i, cleaned) ==
    LET rec == tab[i]
        rlen == ReadLen(rec, AB, cleaned) + (IF Mut = "mergebefore" THEN MergeLen(rec, AB, cleaned) ELSE 0)
        wstart == ns[a][i]
        wend == ns[a][i + 1]
        rs == RStart(rec, AB)
        readOK == rs + rlen <= OFileLen(cat[file], AB)
        mlen == MergeLen(rec, AB, cleaned)
        ms == RMStart(rec, AB)
        mreadOK == ms + mlen <= MFileLen(cat[file], AB)
        writeOK == wstart + rlen + mlen <= wend /\ wend <= Len(st.out)
    IN IF ~(readOK /\ mreadOK /\ writeOK) THEN [st EXCEPT !.oob = TRUE]
       ELSE LET o1 == [p \in 1..Len(st.out) |->
                         IF p > wstart /\ p <= wstart + rlen THEN <<file, AB, "o", rs + (p - wstart) - 1>>
                         ELSE IF p > wstart + rlen /\ p <= wstart + rlen + mlen THEN <<file, AB, "m", ms + (p - wstart - rlen) - 1>>
                         ELSE st.out[p]]
                w1 == [p \in 1..Len(st.out) |-> IF p > wstart /\ p <= wstart + rlen + mlen THEN st.writes[p] + 1 ELSE st.writes[p]]
            IN [st EXCEPT !.out = o1, !.writes = w1]
Load(cat, mask, ABs, cleaned) ==
    LET tab == [i \in 1..Len(Kept(cat, mask)) |-> RowRec(cat, Kept(cat, mask)[i])]
        ns == NewStarts(tab, ABs, cleaned)
        total == IF Len(ABs) = 0 THEN 0 ELSE ns[Len(ABs)][Len(tab) + 1]
        offs == FileOffsets(cat, mask)
        units == FlattenSeq([a \in 1..Len(ABs) |-> FlattenSeq([f \in 1..Len(cat) |->
                     [j \in 1..(IF offs[f + 1] > offs[f] THEN offs[f + 1] - offs[f] ELSE 0) |-> <<a, f, offs[f] + j>>]])])
        st0 == [out |-> [p \in 1..total |-> <<0, "-", "-", 0>>], writes |-> [p \in 1..total |-> 0], oob |-> FALSE]
        step(st, u) == IF u[3] > Len(tab) THEN [st EXCEPT !.oob = TRUE]
                       ELSE ZipRow(st, cat, tab, ns, u[1], ABs[u[1]], u[2], u[3], cleaned)
    IN [res |-> FoldLeft(step, st0, units), ns |-> ns]
\* layer A agrees with layer D, stays in bounds, and writes every slot exactly once
LoadOK(cat, mask, ABs, cleaned) ==
    LET l == Load(cat, mask, ABs, cleaned) IN
    /\ ~l.res.oob
    /\ l.res.out = ExpectedTable(cat, mask, ABs, cleaned)
    /\ \A p \in 1..Len(l.res.out) : l.res.writes[p] = 1
    /\ \A a \in 1..Len(ABs) : \A i \in 1..Len(Kept(cat, mask)) :
          <<l.ns[a][i], l.ns[a][i + 1] - l.ns[a][i]>> = ExpectedIndex(cat, mask, ABs, cleaned)[a][i]

(* ---------------- enumeration ---------------- *)
HT(nA, gA, mA, hA, nB, gB, mB, hB, away) == [nA |-> nA, gA |-> gA, mA |-> mA, hA |-> hA, nB |-> nB, gB |-> gB, mB |-> mB, hB |-> hB, away |-> away]
HaloTypes == << HT(2, 0, 0, 0, 1, 1, 0, 0, FALSE),       \* plain, gap before its B particles
                HT(0, 1, 1, 1, 0, 0, 0, 0, FALSE),       \* zero original particles, one merged A particle after a gap
                HT(2, 0, 0, 0, 1, 0, 0, 0, TRUE),        \* cleaned away: its particles must not be loaded
                HT(1, 1, 2, 0, 0, 0, 1, 1, FALSE),       \* original + merged in A, merged only in B
                HT(1, 2, 0, 0, 2, 0, 2, 0, FALSE),       \* large gap in A, merged in B
                HT(0, 0, 0, 0, 0, 0, 0, 0, FALSE) >>     \* no subsample particles at all
SlabsOver(T, maxh) == UNION { [1..n -> T] : n \in 0..maxh }
CatsOver(T, maxh) == { <<s>> : s \in SlabsOver(T, maxh) } \cup { <<s1, s2>> : s1 \in SlabsOver(T, maxh), s2 \in SlabsOver(T, maxh) }
MasksOf(cat) == { m \in [1..Len(cat) -> UNION { [1..n -> BOOLEAN] : n \in 0..4 }] : \A s \in 1..Len(cat) : Len(m[s]) = Len(cat[s]) }
ABSets == { <<"A">>, <<"B">>, <<"A", "B">> }
AllOK(T, maxh) == \A cat \in CatsOver(T, maxh) : \A m \in MasksOf(cat) : \A abs \in ABSets : \A cl \in BOOLEAN :
                     LoadOK(cat, m, abs, cl) /\ IndexTheorem(cat, m, abs, cl)
FirstBad(T, maxh) == { <<cat, m, abs, cl>> \in { <<c, mm, a, b>> : c \in CatsOver(T, maxh), mm \in {[s \in 1..2 |-> <<TRUE, TRUE>>]}, a \in ABSets, b \in BOOLEAN } : FALSE }
Case(cat, m, abs, cl) == [cat |-> cat, mask |-> m, ABs |-> abs, cleaned |-> cl,
                          table |-> ExpectedTable(cat, m, abs, cl), index |-> ExpectedIndex(cat, m, abs, cl)]
=========================================================================================
