------------------------------------- MODULE TwoPass -------------------------------------
(* abacusnbody.hod.GRAND_HOD gen_cent / gen_sats two-pass parallel fill and fast_concatenate — property C10.

   H hosts, each already classified keep[i] in 0..K (0 = no galaxy, k = tracer k) — classification is a pure
   function of the host (C09), so only the count/fill structure is modelled.  T threads own contiguous blocks
   hstart = rint(linspace(0, H, T+1)) (round half to even).  Pass 1 counts per thread and class (private
   counters); barrier; exclusive prefix sums give each thread its start offset per class; pass 2: every thread
   walks its block and writes the host index into out[class][j], j = its private running offset.
   Layer D: out[k] = the hosts of class k in increasing index order, whatever T and the interleaving.
   Layer A: T workers, one step per host in the fill pass (slot write + private counter increment).
   Mut: "none" | "sharedcounter" (one running offset per class shared by all threads) |
        "wrongprefix" (offsets of class k taken from class 1's counts).                                  *)
EXTENDS Naturals, Integers, Sequences, SequencesExt, FiniteSets, TLC

CONSTANTS MaxH, T, K, Mut

RintDiv(a, b) == LET q == a \div b  r == a % b IN
                 IF 2 * r < b THEN q ELSE IF 2 * r > b THEN q + 1 ELSE IF q % 2 = 0 THEN q ELSE q + 1
HStart(H, t) == RintDiv(H * t, T)                    \* t = 0..T

VARIABLES keep, phase, pos, off, out, writes
vars == <<keep, phase, pos, off, out, writes>>
H == Len(keep)
Thr == 0..(T - 1)
Cls == 1..K
CountIn(t, k) == Cardinality({ i \in (HStart(H, t) + 1)..HStart(H, t + 1) : keep[i] = k })
Prefix(t, k) == LET S[u \in 0..t] == IF u = 0 THEN 0 ELSE S[u - 1] + CountIn(u - 1, IF Mut = "wrongprefix" THEN 1 ELSE k) IN S[t]
Total(k) == Cardinality({ i \in 1..H : keep[i] = k })

Init == /\ keep \in UNION { [1..n -> 0..K] : n \in 0..MaxH }
        /\ phase = "count"
        /\ pos = [t \in Thr |-> 0]
        /\ off = [t \in Thr |-> [k \in Cls |-> 0]]
        /\ out = <<>> /\ writes = <<>>
\* pass 1 is thread-private (each thread only touches Nout[tid]); modelled as one step
Barrier1 == /\ phase = "count"
            /\ phase' = "fill"
            /\ pos' = [t \in Thr |-> HStart(H, t) + 1]
            /\ off' = [t \in Thr |-> [k \in Cls |-> Prefix(t, k)]]
            /\ out' = [k \in Cls |-> [j \in 1..Total(k) |-> 0]]
            /\ writes' = [k \in Cls |-> [j \in 1..Total(k) |-> 0]]
            /\ UNCHANGED keep
Owner(t) == IF Mut = "sharedcounter" THEN 0 ELSE t
Fill(t) == /\ phase = "fill" /\ pos[t] <= HStart(H, t + 1)
           /\ LET i == pos[t]  k == keep[i] IN
              IF k = 0 THEN UNCHANGED <<out, writes, off>>
              ELSE LET j == off[Owner(t)][k] + 1 IN
                   /\ j \in 1..Total(k)                                   \* InBounds (C11)
                   /\ out' = [out EXCEPT ![k][j] = i]
                   /\ writes' = [writes EXCEPT ![k][j] = @ + 1]
                   /\ off' = [off EXCEPT ![Owner(t)][k] = @ + 1]
           /\ pos' = [pos EXCEPT ![t] = @ + 1]
           /\ UNCHANGED <<keep, phase>>
Done == /\ phase = "fill" /\ \A t \in Thr : pos[t] > HStart(H, t + 1)
        /\ phase' = "done" /\ UNCHANGED <<keep, pos, off, out, writes>>
Next == Barrier1 \/ (\E t \in Thr : Fill(t)) \/ Done
Spec == Init /\ [][Next]_vars

BlocksPartition == /\ HStart(H, 0) = 0 /\ HStart(H, T) = H /\ \A t \in Thr : HStart(H, t) <= HStart(H, t + 1)
InBounds == (phase = "fill") => \A t \in Thr : (pos[t] <= HStart(H, t + 1) /\ keep[pos[t]] # 0) =>
               off[Owner(t)][keep[pos[t]]] + 1 \in 1..Total(keep[pos[t]])
NoDoubleWrite == (phase # "count") => \A k \in Cls : \A j \in 1..Total(k) : writes[k][j] <= 1
Expected(k) == SetToSortSeq({ i \in 1..H : keep[i] = k }, <)
RefinesD == (phase = "done") => \A k \in Cls : out[k] = Expected(k) /\ \A j \in 1..Total(k) : writes[k][j] = 1

(* ---- fast_concatenate: proportional thread split; every output index copied exactly once ---- *)
Max2(a, b) == IF a > b THEN a ELSE b
ConcatOK(N1, N2, TT) ==
    IF N1 = 0 \/ N2 = 0 \/ TT = 1 THEN TRUE
    ELSE LET T1 == Max2(1, (TT * N1) \div (N1 + N2))
             T2 == TT - T1
             h1(t) == RintDiv(N1 * t, T1)
             h2(t) == RintDiv(N2 * t, T2) + N1
             cover == UNION ({ (h1(t) + 1)..h1(t + 1) : t \in 0..(T1 - 1) } \cup { (h2(t) + 1)..h2(t + 1) : t \in 0..(T2 - 1) })
             sizes == LET S[t \in 0..TT] == IF t = 0 THEN 0 ELSE S[t - 1] + (IF t <= T1 THEN h1(t) - h1(t - 1) ELSE h2(t - T1) - h2(t - T1 - 1)) IN S[TT]
         IN T2 >= 1 /\ cover = 1..(N1 + N2) /\ sizes = N1 + N2
ConcatTheorem(MaxN, MaxT) == \A N1 \in 0..MaxN : \A N2 \in 0..MaxN : \A TT \in 1..MaxT : ConcatOK(N1, N2, TT)
\* the block formula partitions 0..H for every (H, T)
BlockTheorem(MaxHH, MaxT) == \A HH \in 0..MaxHH : \A TT \in 1..MaxT :
    LET hs(t) == RintDiv(HH * t, TT) IN hs(0) = 0 /\ hs(TT) = HH /\ \A t \in 0..(TT - 1) : hs(t) <= hs(t + 1)
==========================================================================================
