----------------------------------- MODULE HaloFields -----------------------------------
(* abacusnbody.data.compaso_halo_catalog — property C02: a halo column's values do not depend on what
   else was requested, and no valid request fails because of its co-requested columns.

   A representative column universe (one per dtype/shape class and per kind of derivation):
     Type(c)      "u64" | "u32" | "f32" | "f32x3" | "u32x5" | "u32xP"   — the declared type of the column
     HaloDeps(c)  other *halo columns* the loader of c reads (sigmavMid reads sigmavMaj and sigmavMin)
     Clean(c)     the column lives in the cleaning files
   Layer D : every requested column comes back with its canonical value, for every request sequence.
   Layer A : the resolver as coded — field-list normalisation (cleaned: N -> N_total, split of cleaning columns,
             automatic subsample index columns), dependency closure by list growth, reversed de-duplication as
             load order, temporary per-file columns for un-requested dependencies — and the outcome of loading
             each column: "ok", "truncated" (a temporary slot of an integer type holds a float dependency),
             "error" (a temporary slot of the wrong shape cannot be assigned / a needed column is missing).
   Variant: "fixed" = current tree; "staledtype" and "indexonlycleaned" = the two original defects (controls). *)
EXTENDS Naturals, Sequences, SequencesExt, FiniteSets, TLC, Json, IOUtils

CONSTANT Variant

Universe == <<"id", "N", "x_com", "r100_com", "r50_com", "L2_N", "sigmav3d_com", "sigmavMin_com", "sigmavMaj_com", "sigmavMid_com",
              "sigmavMid_L2com", "sigmar_com", "N_merge", "v_L2com_mainprog", "N_mainprog",
              "sigmav_eigenvecsMin_com", "sigmav_eigenvecsMaj_com",      \* two of the three outputs of one multi-output loader (one packed raw column)
              "npoutA", "npoutB">>                                       \* one member of each subsample index pair (the other is added automatically when that subsample is loaded)
Type(c) == CASE c \in {"id", "npstartA", "npstartB"} -> "u64"
             [] c \in {"N", "N_total", "N_merge", "npoutA", "npoutB", "npoutA_merge", "npoutB_merge"} -> "u32"
             [] c \in {"npstartA_merge", "npstartB_merge"} -> "i64"
             [] c \in {"x_com", "sigmar_com", "v_L2com_mainprog", "sigmav_eigenvecsMin_com", "sigmav_eigenvecsMaj_com"} -> "f32x3"
             [] c = "L2_N" -> "u32x5"
             [] c = "N_mainprog" -> "u32xP"
             [] OTHER -> "f32"
IsFloat(t) == t \in {"f32", "f32x3"}
Shape(t) == IF t \in {"f32x3"} THEN 3 ELSE IF t = "u32x5" THEN 5 ELSE IF t = "u32xP" THEN 9 ELSE 1
Clean(c) == c \in {"N_total", "N_merge", "v_L2com_mainprog", "N_mainprog", "npstartA_merge", "npstartB_merge", "npoutA_merge", "npoutB_merge"}
HaloDeps(c) == IF c = "sigmavMid_com" THEN <<"sigmavMaj_com", "sigmavMin_com">>
               ELSE IF c = "sigmavMid_L2com" THEN <<"sigmavMaj_L2com", "sigmavMin_L2com">> ELSE <<>>

Without(sq, x) == SelectSeq(sq, LAMBDA y : y # x)
Has(sq, x) == \E i \in 1..Len(sq) : sq[i] = x
AddIfAbsent(sq, x) == IF Has(sq, x) THEN sq ELSE Append(sq, x)
\* keep the first occurrence of each element
RECURSIVE Dedup(_)
Dedup(sq) == IF sq = <<>> THEN <<>> ELSE <<Head(sq)>> \o Dedup(Without(Tail(sq), Head(sq)))

(* ---- _setup_fields ---- *)
SetupFields(req, cleaned, ABs) ==
    LET f0 == IF cleaned THEN AddIfAbsent(Without(req, "N"), "N_total") ELSE req
        cf0 == IF cleaned THEN SelectSeq(f0, Clean) ELSE <<>>
        f1 == IF cleaned THEN SelectSeq(f0, LAMBDA c : ~Clean(c)) ELSE f0
        addIdx(fc, ab) ==
            IF cleaned \/ Variant # "indexonlycleaned"
            THEN [f |-> AddIfAbsent(AddIfAbsent(fc.f, "npstart" \o ab), "npout" \o ab),
                  c |-> IF cleaned THEN AddIfAbsent(AddIfAbsent(fc.c, "npstart" \o ab \o "_merge"), "npout" \o ab \o "_merge") ELSE fc.c]
            ELSE fc
    IN FoldLeft(addIdx, [f |-> f1, c |-> cf0], ABs)

(* ---- _get_halo_fields_dependencies: list growth, then reversed de-duplication ---- *)
RECURSIVE Grow(_, _)
Grow(lst, i) == IF i > Len(lst) THEN lst ELSE Grow(lst \o HaloDeps(lst[i]), i + 1)
Resolve(req, cleaned, ABs) ==
    LET sf == SetupFields(req, cleaned, ABs)
        all == sf.f \o sf.c
        grown == Grow(all, 1)
        order == Dedup(Reverse(grown))                        \* load order (dependencies first)
        extra == SelectSeq(order, LAMBDA c : ~Has(all, c))    \* temporary per-file columns
        \* the dtype used to allocate a temporary column
        stale == IF sf.c # <<>> THEN sf.c[Len(sf.c)] ELSE IF sf.f # <<>> THEN sf.f[Len(sf.f)] ELSE "id"
        slot(c) == IF Has(all, c) THEN Type(c) ELSE IF Variant = "staledtype" THEN Type(stale) ELSE Type(c)
    IN [fields |-> sf.f, cfields |-> sf.c, all |-> all, order |-> order, extra |-> extra, slot |-> [c \in ToSet(order) |-> slot(c)]]

(* ---- outcome of loading: walk the load order ---- *)
Outcome(req, cleaned, ABs) ==
    LET r == Resolve(req, cleaned, ABs)
        step(acc, c) ==
            LET depsLoaded == \A i \in 1..Len(HaloDeps(c)) : Has(acc.done, HaloDeps(c)[i])
                depBad == \E i \in 1..Len(HaloDeps(c)) : HaloDeps(c)[i] \in acc.trunc
                slotT == r.slot[c]
                st == IF ~depsLoaded THEN "error"
                      ELSE IF Shape(slotT) # Shape(Type(c)) THEN "error"            \* cannot broadcast the column into its slot
                      ELSE IF IsFloat(Type(c)) /\ ~IsFloat(slotT) THEN "truncated"
                      ELSE IF depBad THEN "truncated" ELSE "ok"
            IN [done |-> Append(acc.done, c), trunc |-> IF st = "truncated" THEN acc.trunc \cup {c} ELSE acc.trunc,
                err |-> acc.err \/ st = "error"]
        w == FoldLeft(step, [done |-> <<>>, trunc |-> {}, err |-> FALSE], r.order)
        \* subsample loading needs its index columns in the halo table
        idxOK == \A i \in 1..Len(ABs) : Has(r.all, "npstart" \o ABs[i]) /\ Has(r.all, "npout" \o ABs[i])
    IN [error |-> w.err \/ ~idxOK, truncated |-> w.trunc, order |-> r.order, extra |-> r.extra]

(* ---- Layer D as a predicate on A's outcome: nothing fails, nothing requested is altered ---- *)
RequestOK(req, cleaned, ABs) == LET o == Outcome(req, cleaned, ABs) IN ~o.error /\ o.truncated = {}
\* every dependency is loaded before its dependant (invariant of the reversed de-duplication)
OrderOK(req, cleaned, ABs) == LET o == Resolve(req, cleaned, ABs).order IN
    \A i \in 1..Len(o) : \A k \in 1..Len(HaloDeps(o[i])) : \E j \in 1..(i - 1) : o[j] = HaloDeps(o[i])[k]

RECURSIVE Requests(_)
Requests(n) == IF n = 0 THEN {<<>>} ELSE LET S == Requests(n - 1) IN
               S \cup { Append(q, Universe[u]) : q \in { t \in S : Len(t) = n - 1 }, u \in 1..Len(Universe) }
ValidRequests(n, cleaned) == { q \in Requests(n) : q # <<>> /\ Len(Dedup(q)) = Len(q) /\ (cleaned \/ \A i \in 1..Len(q) : ~Clean(q[i])) }
ABChoices == { <<>>, <<"A">>, <<"A", "B">> }
AllOK(n) == \A cl \in BOOLEAN : \A q \in ValidRequests(n, cl) : \A ab \in ABChoices : RequestOK(q, cl, ab) /\ OrderOK(q, cl, ab)
BadRequests(n) == { <<q, cl, ab>> \in UNION { ValidRequests(n, cl) \X {cl} \X ABChoices : cl \in BOOLEAN } : ~RequestOK(q, cl, ab) }
Emit(n) == JsonSerialize(IOEnv.CASES_OUT,
             SetToSeq(UNION { { [req |-> q, cleaned |-> cl, ABs |-> ab, order |-> Outcome(q, cl, ab).order, extra |-> Outcome(q, cl, ab).extra] :
                                 q \in ValidRequests(n, cl), ab \in ABChoices } : cl \in BOOLEAN }))
=========================================================================================
