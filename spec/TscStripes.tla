-------------------------------- MODULE TscStripes --------------------------------
(* abacusnbody.analysis.tsc.tsc_parallel — property C07 (stripe safety) and the stripe
   geometry shared with C17 / C06.

   Lattice: positions along the partition coordinate are integers m in 0..n*Q, meaning
   m/Q cells (m = n*Q is the value BoxSize that the in-place wrap can produce in float32);
   the sub-cell offset o is in the same units and may be negative.

   Layer D : Safe(np, n, o)  — no two stripes processed in the same pass touch a common row.
             Accepted / Default — the configuration rule of tsc_parallel (transcribed; the
             verdict on the real code uses the decisions *observed* on it, see TscDecisions).
   Layer A : a shared-memory interleaving model of the two-pass deposit (bottom), in which
             each grid update is a non-atomic read followed by a write.                *)
EXTENDS Naturals, Integers, Sequences, FiniteSets, TLC

CONSTANT Q                    \* lattice points per cell (even, so that half cells are on the lattice)

(* ---- geometry ---- *)
\* round-to-nearest of (m/Q); a tie may resolve either way (ftype rounding of the product)
Rounds(m) == LET q == m \div Q  r == m % Q IN
             IF 2 * r < Q THEN {q} ELSE IF 2 * r > Q THEN {q + 1} ELSE {q, q + 1}
\* rows (mod n) touched by a particle at lattice position m with offset o: nearest cell +-1
Rows(m, o, n) == UNION { { (c - 1) % n, c % n, (c + 1) % n } : c \in Rounds(m + o) }
\* stripe membership: key = min(floor(x*np/Box), np-1); stripe boundaries are treated as
\* belonging to both neighbours (the key is computed in floating point)
InStripe(m, s, np, n) == IF s = np - 1 THEN m * np >= s * n * Q
                         ELSE (m * np >= s * n * Q /\ m * np <= (s + 1) * n * Q)
StripeRows(s, np, n, o) == UNION { Rows(m, o, n) : m \in { mm \in 0..(n * Q) : InStripe(mm, s, np, n) } }
\* rows that receive a NON-ZERO weight.  Off a tie: the three rows around the nearest cell.
\* On a tie (distance exactly half a cell) the far neighbour's weight 1/2 (1/2 - 1/2)^2 is 0
\* whichever way the tie resolves, so only the two cells adjacent to the particle get mass.
RowsNZ(m, o, n) == LET q == (m + o) \div Q  r == (m + o) % Q IN
                   IF 2 * r = Q THEN { q % n, (q + 1) % n } ELSE Rows(m, o, n)
StripeRowsNZ(s, np, n, o) == UNION { RowsNZ(m, o, n) : m \in { mm \in 0..(n * Q) : InStripe(mm, s, np, n) } }

(* ---- Layer D ---- *)
\* stripes s and u run concurrently iff they are in the same pass (same parity)
SamePass(s, u) == s % 2 = u % 2
\* A deposit can be lost iff one stripe read-modify-writes a cell (with any weight, even 0:
\* `+= 0` still writes back a possibly stale value) that a concurrent stripe changes.
PairSafe(s, u, np, n, o) == /\ StripeRows(s, np, n, o) \cap StripeRowsNZ(u, np, n, o) = {}
                            /\ StripeRowsNZ(s, np, n, o) \cap StripeRows(u, np, n, o) = {}
Safe(np, n, o) == LET T == [s \in 0..(np - 1) |-> StripeRows(s, np, n, o)]          \* computed once per stripe
                      Z == [s \in 0..(np - 1) |-> StripeRowsNZ(s, np, n, o)]
                  IN \A s, u \in 0..(np - 1) :
                        (s < u /\ SamePass(s, u)) => (T[s] \cap Z[u] = {} /\ Z[s] \cap T[u] = {})
Conflicts(np, n, o) == { <<s, u>> \in (0..(np - 1)) \X (0..(np - 1)) :
                           s < u /\ SamePass(s, u) /\ ~PairSafe(s, u, np, n, o) }

(* ---- configuration rule (transcription of tsc_parallel; Rule = "fixed" is the current
        tree, "pinned" the original commit kept as a positive control) ---- *)
DefaultNP(n1d, nthread, Rule) ==
    IF nthread <= 1 THEN 1
    ELSE IF Rule = "pinned"
         THEN LET a == IF 2 * nthread >= n1d \div 2
                       THEN LET h == 2 * ((n1d \div 2) \div 2) IN IF h < n1d \div 2 THEN n1d \div 3 ELSE h
                       ELSE (IF n1d \div 3 < 2 * nthread THEN n1d \div 3 ELSE 2 * nthread)
              IN 2 * (a \div 2)
         ELSE LET a == IF n1d \div 3 < 2 * nthread THEN n1d \div 3 ELSE 2 * nthread IN 2 * (a \div 2)
\* npArg = 0 stands for None / 0 (falsy)
EffectiveNP(n1d, nthread, npArg, Rule) == IF npArg = 0 THEN DefaultNP(n1d, nthread, Rule) ELSE npArg
Rejected(n1d, nthread, npArg, Rule) ==
    LET p == EffectiveNP(n1d, nthread, npArg, Rule) IN
    \/ (Rule = "pinned" /\ p > n1d \div 3 /\ p # n1d \div 2 /\ nthread > 1)
    \/ (Rule = "fixed" /\ p > n1d \div 3 /\ p > 2 /\ nthread > 1)
    \/ (p > 1 /\ p % 2 # 0 /\ nthread > 1)
\* a configuration is concurrent only with more than one thread and more than 2 stripes
ConfigSafe(n1d, nthread, p, o) == (nthread > 1 /\ p > 2) => Safe(p, n1d, o)

\* (n1d, p) pairs some configuration within the bounds accepts with possible concurrency
AcceptedPairs(MaxN, MaxT, Rule) ==
    { <<n1d, EffectiveNP(n1d, t, a, Rule)>> : <<n1d, t, a>> \in
        { c \in (1..MaxN) \X (2..MaxT) \X (0..MaxN) : c[3] <= c[1] /\ ~Rejected(c[1], c[2], c[3], Rule)
                                                       /\ EffectiveNP(c[1], c[2], c[3], Rule) > 2 } }
UnsafePairs(MaxN, MaxT, Offsets, Rule) ==
    { pr \in AcceptedPairs(MaxN, MaxT, Rule) : \E o \in Offsets : ~Safe(pr[2], pr[1], o) }
RuleTheorem(MaxN, MaxT, Offsets, Rule) == UnsafePairs(MaxN, MaxT, Offsets, Rule) = {}

(* ================= Layer A: interleaving model of _tsc_parallel =================
   n rows (1-D projection onto the partition coordinate), np stripes, one particle list
   per stripe.  Every deposit `density[r] += w` is Read(r) then Write(r); workers of the
   same pass interleave freely; a barrier separates the passes.                        *)
CONSTANTS N1D, NP, OFF, PartsPerStripe,
          Loaded          \* set of stripes that may hold particles (the others stay empty)
VARIABLES grid, pcs, reg, pass, parts

Stripes == 0..(NP - 1)
\* a particle is <<m, c>>: lattice position and the nearest cell chosen by round() (c \in Rounds(m+OFF))
\* TSC weights scaled by 4Q^2 (exact integers): d = c*Q - (m+OFF) in lattice units, |d| <= Q/2
WM1(d) == ((Q + 2 * d) * (Q + 2 * d)) \div 2
W0(d)  == 3 * Q * Q - 4 * d * d
WP1(d) == ((Q - 2 * d) * (Q - 2 * d)) \div 2
Ops(p) == LET c == p[2]  d == p[2] * Q - (p[1] + OFF) IN
          << <<(c - 1) % N1D, WM1(d)>>, <<c % N1D, W0(d)>>, <<(c + 1) % N1D, WP1(d)>> >>
RECURSIVE Flat(_)
Flat(ps) == IF ps = <<>> THEN <<>> ELSE Ops(Head(ps)) \o Flat(Tail(ps))
Prog(s) == Flat(parts[s])

\* closed on both sides: a particle exactly on a stripe boundary may be keyed into either neighbour
StripePositions(s) == { m \in 0..(N1D * Q) : InStripe(m, s, NP, N1D) }

\* particle lists of at most PartsPerStripe particles inside stripe s
StripeParticles(s) == { <<m, c>> \in StripePositions(s) \X ((-2)..(N1D + 2)) : c \in Rounds(m + OFF) }
StripeLists(s) == UNION { [1..k -> StripeParticles(s)] : k \in 0..(IF s \in Loaded THEN PartsPerStripe ELSE 0) }

\* pass = -1: placement phase, stripe by stripe (the environment chooses the particle set)
AInit == /\ grid = [r \in 0..(N1D - 1) |-> 0]
         /\ pcs = [s \in Stripes |-> 1]
         /\ reg = [s \in Stripes |-> -1]
         /\ pass = -1
         /\ parts = <<>>
Place == /\ pass = -1
         /\ IF Len(parts) < NP
            THEN /\ \E l \in StripeLists(Len(parts)) : parts' = Append(parts, l)
                 /\ UNCHANGED pass
            ELSE /\ parts' = [s \in Stripes |-> parts[s + 1]]       \* re-index from 0
                 /\ pass' = 0
         /\ UNCHANGED <<grid, pcs, reg>>

Active(s) == pass >= 0 /\ s % 2 = pass /\ pcs[s] <= Len(Prog(s))
ReadCell(s) == /\ pass \in {0, 1} /\ Active(s) /\ reg[s] = -1
               /\ reg' = [reg EXCEPT ![s] = grid[Prog(s)[pcs[s]][1]]]
               /\ UNCHANGED <<grid, pcs, pass, parts>>
WriteCell(s) == /\ pass \in {0, 1} /\ Active(s) /\ reg[s] # -1
                /\ grid' = [grid EXCEPT ![Prog(s)[pcs[s]][1]] = reg[s] + Prog(s)[pcs[s]][2]]
                /\ pcs' = [pcs EXCEPT ![s] = @ + 1]
                /\ reg' = [reg EXCEPT ![s] = -1]
                /\ UNCHANGED <<pass, parts>>
Barrier == /\ pass \in {0, 1} /\ \A s \in Stripes : ~Active(s)
           /\ pass' = pass + 1
           /\ UNCHANGED <<grid, pcs, reg, parts>>
ANext == Place \/ (\E s \in Stripes : ReadCell(s) \/ WriteCell(s)) \/ Barrier
avars == <<grid, pcs, reg, pass, parts>>
ASpec == AInit /\ [][ANext]_avars

RECURSIVE ApplyOps(_, _)
ApplyOps(g, ops) == IF ops = <<>> THEN g
                    ELSE ApplyOps([g EXCEPT ![Head(ops)[1]] = @ + Head(ops)[2]], Tail(ops))
RECURSIVE SerialFrom(_, _)
SerialFrom(g, s) == IF s = NP THEN g ELSE SerialFrom(ApplyOps(g, Flat(parts[s])), s + 1)
SerialDeposit == SerialFrom([r \in 0..(N1D - 1) |-> 0], 0)

\* C07: under every interleaving the parallel grid equals the serial deposit
NoLostUpdate == (pass = 2) => grid = SerialDeposit
\* mass conservation at the end
Conserved == (pass = 2) => LET S[r \in -1..(N1D - 1)] == IF r = -1 THEN 0 ELSE S[r - 1] + grid[r]
                           IN S[N1D - 1] = 4 * Q * Q * Cardinality({ <<s, k>> \in Stripes \X (1..PartsPerStripe) : k \in DOMAIN parts[s] })
===================================================================================
