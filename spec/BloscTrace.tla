-------------------------------- MODULE BloscTrace --------------------------------
(* Layer T for BloscStream: chunk-boundary events recorded from the real
   BloscCompressor.decompress (hook 'blosc_chunk') for one frame set, many chunkings.
   Each recorded run must be a behaviour of layer A observed at chunk boundaries, and
   must end in the state layer D requires. *)
EXTENDS BloscStream, TLCExt

TraceData == JsonDeserialize(IOEnv.TRACE_FILE)      \* [frames, dec, runs |-> <<[chunks, events, ret]>>]
TFrames == TraceData.frames
Dec == TraceData.dec                                \* decoded size of each frame
Runs == TraceData.runs

VARIABLES tid, k
tvars == <<st, tid, k>>

RECURSIVE DecSum(_)
DecSum(n) == IF n = 0 THEN 0 ELSE DecSum(n - 1) + Dec[n]

TraceInit == st = St0 /\ tid \in 1..Len(Runs) /\ k = 0
TraceNext == /\ k < Len(Runs[tid].chunks)
             /\ st' = Feed(st, Runs[tid].chunks[k + 1])
             /\ k' = k + 1 /\ UNCHANGED tid
TraceSpec == TraceInit /\ [][TraceNext]_tvars

EventOK == k > 0 =>
    LET e == Runs[tid].events[k]  o == Observe(st) IN
    /\ e.size = o.size /\ e.npartial = o.npartial /\ e.hasbuf = o.hasbuf /\ e.pos = o.pos
    /\ e.bytesout = DecSum(o.nout)
LengthOK == Len(Runs[tid].events) = Len(Runs[tid].chunks)
EndOK == (k = Len(Runs[tid].chunks)) =>
            (st.out = Expected /\ ~st.bad /\ st.size = 0 /\ st.partial = <<>> /\ ~st.hasbuf /\ Runs[tid].ret = DecSum(NF))
====================================================================================
