---------------------------------- MODULE BitFields ----------------------------------
(* abacusnbody.data.bitpacked — property C04: the RVint and aux (PID) bit layouts.

   RVint word w (signed 32 bit): upper 20 bits = position in units of BoxSize/1e6 (signed),
   lower 12 bits = velocity + 2048 in units of 6000/2048 km/s.
   Aux word (64 bit), written here as four 16-bit limbs <<l0, l1, l2, l3>> (TLC integers are 32 bit):
     bits 0-14  (l0 low 15)  Lagrangian index x        bit 15 (l0 top)  not part of any field
     bits 16-30 (l1 low 15)  Lagrangian index y        bit 31
     bits 32-46 (l2 low 15)  Lagrangian index z        bit 47
     bit 48 (l3 bit 0) tagged;  bits 49-58 (l3 bits 1-10) density (stored as sqrt, decoded squared);
     bits 59-63 unused.   pid = the word with every non-index bit cleared.
   Everything here is layer D (pure functions of the word); the theorems state round trip and
   field independence; the M2 operators enumerate boundary words with their expected decode. *)
EXTENDS Naturals, Integers, Sequences, SequencesExt, FiniteSets, TLC, Json, IOUtils

(* ---------------- RVint ---------------- *)
Hi20(w) == w \div 4096                   \* arithmetic shift: floor division (negative words stay negative)
Lo12(w) == w % 4096
PosInt(w) == Hi20(w)                     \* x BoxSize/1e6
VelInt(w) == Lo12(w) - 2048              \* x 6000/2048 km/s
Encode(P, V) == P * 4096 + (V + 2048)    \* P in -2^19..2^19-1, V in -2048..2047
RoundTrip(Ps, Vs) == \A P \in Ps : \A V \in Vs : PosInt(Encode(P, V)) = P /\ VelInt(Encode(P, V)) = V
\* the two fields are independent: changing one leaves the other
RvIndependent(Ps, Vs) == \A P \in Ps : \A V1 \in Vs : \A V2 \in Vs :
                            PosInt(Encode(P, V1)) = PosInt(Encode(P, V2))
BoundaryP == {-524288, -524287, -500000, -2, -1, 0, 1, 2, 4095, 4096, 262143, 262144, 499999, 500000, 524286, 524287}
BoundaryV == {-2048, -2047, -1025, -1024, -1, 0, 1, 1023, 1024, 2046, 2047}
RvCases == { [w |-> Encode(P, V), pos |-> P, vel |-> V] : P \in BoundaryP, V \in BoundaryV }
             \cup { [w |-> w, pos |-> PosInt(w), vel |-> VelInt(w)] :
                      w \in {-2147483647 - 1, -2147483647, -4097, -4096, -4095, -1, 0, 1, 4095, 4096, 4097, 2147483646, 2147483647} }

(* ---------------- aux / PID ---------------- *)
Idx(l) == l % 32768
Tagged(aux) == aux[4] % 2
DensRoot(aux) == (aux[4] \div 2) % 1024
Density(aux) == DensRoot(aux) * DensRoot(aux)
PidLimbs(aux) == <<Idx(aux[1]), Idx(aux[2]), Idx(aux[3]), 0>>
Decode(aux) == [x |-> Idx(aux[1]), y |-> Idx(aux[2]), z |-> Idx(aux[3]), tagged |-> Tagged(aux),
                density |-> Density(aux), pid |-> PidLimbs(aux)]
\* compose a word from its fields and the remaining ("other") bits
Compose(x, y, z, t, d, b15, b31, b47, hi5) ==
    <<x + 32768 * b15, y + 32768 * b31, z + 32768 * b47, t + 2 * d + 2048 * hi5>>
FieldVals15 == {0, 1, 2, 16383, 16384, 21845, 32766, 32767}
FieldVals10 == {0, 1, 2, 511, 512, 682, 1022, 1023}
OtherBits == { <<0, 0, 0, 0>>, <<1, 1, 1, 31>>, <<1, 0, 1, 21>>, <<0, 1, 0, 10>> }
\* one field sweeps its boundary values while the others take corner patterns
AuxCases ==
    LET corner15 == {0, 21845, 32767}
        corner10 == {0, 682, 1023}
    IN { [aux |-> Compose(x, y, z, t, d, o[1], o[2], o[3], o[4]), exp |-> Decode(Compose(x, y, z, t, d, o[1], o[2], o[3], o[4]))] :
            <<x, y, z, t, d, o>> \in
               (FieldVals15 \X corner15 \X corner15 \X {0, 1} \X corner10 \X OtherBits)
               \cup (corner15 \X FieldVals15 \X corner15 \X {0, 1} \X corner10 \X OtherBits)
               \cup (corner15 \X corner15 \X FieldVals15 \X {0, 1} \X corner10 \X OtherBits)
               \cup (corner15 \X corner15 \X corner15 \X {0, 1} \X FieldVals10 \X OtherBits) }
\* field independence and exact recovery of every field from a composed word
AuxTheorem == \A c \in AuxCases :
                 LET a == c.aux  e == c.exp IN
                 /\ e.x < 32768 /\ e.y < 32768 /\ e.z < 32768 /\ e.tagged \in {0, 1} /\ e.density <= 1023 * 1023
                 /\ \A o \in OtherBits :
                       Decode(Compose(e.x, e.y, e.z, e.tagged, DensRoot(a), o[1], o[2], o[3], o[4])) = e
Emit(x) == JsonSerialize(IOEnv.CASES_OUT, [rv |-> SetToSeq(RvCases), aux |-> SetToSeq(AuxCases)])
======================================================================================
