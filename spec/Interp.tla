-------------------------------------- MODULE Interp --------------------------------------
(* abacusnbody.analysis.power_spectrum.linear_interp / expand_poles_to_3d — specification growth (the interpolation kernel is
   a C11 kernel; its values are not a listed property).
   Knots x_j = j*D (j = 0..n-1) on an integer lattice with D sub-steps per spacing, values y_j integers.
   Layer D: piecewise-linear interpolation, constant continuation outside [x_0, x_{n-1}]; scaled by D to stay in integers:
            D * f(xd) = y_j * (D - r) + y_{j+1} * r   with j = xd div D, r = xd mod D.
   Layer A: the code: ends first, then fl = int(f) clamped to n-2, y[fl] + (f - fl) (y[fl+1] - y[fl]).                     *)
EXTENDS Naturals, Integers, Sequences, TLC

DVal(y, D, xd) == LET n == Len(y) IN
    IF xd <= 0 THEN y[1] * D ELSE IF xd >= (n - 1) * D THEN y[n] * D
    ELSE LET j == xd \div D  r == xd % D IN y[j + 1] * (D - r) + y[j + 2] * r
AVal(y, D, xd) == LET n == Len(y) IN
    IF xd <= 0 THEN y[1] * D ELSE IF xd >= (n - 1) * D THEN y[n] * D
    ELSE LET f == xd \div D                               \* int(f)
             fl == IF f > n - 2 THEN n - 2 ELSE f
         IN y[fl + 1] * D + (xd - fl * D) * (y[fl + 2] - y[fl + 1])
AEqualsD(MaxN, D) == \A n \in 2..MaxN : \A y \in [1..n -> {0, 1, 5}] : \A xd \in (-2)..(n * D + 2) : AVal(y, D, xd) = DVal(y, D, xd)
\* interpolating a linear function is exact; values stay within the range of the neighbouring knots
LinearExact(MaxN, D) == \A n \in 2..MaxN : \A xd \in 0..((n - 1) * D) : DVal([j \in 1..n |-> 3 * (j - 1) + 2], D, xd) = (3 * xd + 2 * D)
============================================================================================
