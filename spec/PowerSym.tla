------------------------------------ MODULE PowerSym ------------------------------------
(* abacusnbody.analysis.power_spectrum.calc_power — property C13 (exploration level).

   Abstract state of one experiment: the permutation applied so far to the particle rows (as a permutation of a 3-label
   probe), the accumulated whole-cell translation (mod the mesh size n per axis), the thread count, and whether the same
   particles are also passed as the second field.  Actions are the symmetry generators; the specification says that the
   OBSERVABLE estimate is a function of none of these: Estimate' = Estimate after every action (checked by the harness on the
   real calc_power along TLC-generated action words), and that N_mode / k, mu ranges / table shape are functions of the mesh
   and the binning only.  TLC checks the group facts the replay relies on: translations compose mod n (n steps = identity),
   permutations compose, actions commute on the abstract state, every word has an inverse word.                         *)
EXTENDS Naturals, Integers, Sequences, SequencesExt, FiniteSets, TLC, Json, IOUtils

CONSTANT N          \* mesh cells per dimension

Gens == <<"PermSwap", "PermRot", "TxPlus", "TxMinus", "TyPlus", "TzFar", "Threads2", "Threads16", "Cross">>
St0 == [perm |-> <<1, 2, 3>>, shift |-> <<0, 0, 0>>, nthread |-> 1, cross |-> FALSE]
Compose(p, q) == [i \in 1..3 |-> p[q[i]]]
Apply(s, g) ==
    CASE g = "PermSwap" -> [s EXCEPT !.perm = Compose(s.perm, <<2, 1, 3>>)]
      [] g = "PermRot" -> [s EXCEPT !.perm = Compose(s.perm, <<2, 3, 1>>)]
      [] g = "TxPlus" -> [s EXCEPT !.shift = <<(s.shift[1] + 1) % N, s.shift[2], s.shift[3]>>]
      [] g = "TxMinus" -> [s EXCEPT !.shift = <<(s.shift[1] + N - 1) % N, s.shift[2], s.shift[3]>>]
      [] g = "TyPlus" -> [s EXCEPT !.shift = <<s.shift[1], (s.shift[2] + 3) % N, s.shift[3]>>]
      [] g = "TzFar" -> [s EXCEPT !.shift = <<s.shift[1], s.shift[2], (s.shift[3] + N - 2) % N>>]
      [] g = "Threads2" -> [s EXCEPT !.nthread = 2]
      [] g = "Threads16" -> [s EXCEPT !.nthread = 16]
      [] g = "Cross" -> [s EXCEPT !.cross = ~s.cross]
Run(w) == FoldLeft(Apply, St0, w)
RECURSIVE Words(_)
Words(k) == IF k = 0 THEN {<<>>} ELSE LET S == Words(k - 1) IN S \cup { Append(w, Gens[g]) : w \in { x \in S : Len(x) = k - 1 }, g \in 1..Len(Gens) }
\* group facts
Repeat(g, k) == [i \in 1..k |-> g]
GroupFacts ==
    /\ Run(Repeat("TxPlus", N)).shift = <<0, 0, 0>>                       \* n whole-cell steps are the identity
    /\ Run(<<"TxPlus", "TxMinus">>) = St0
    /\ Run(Repeat("PermRot", 3)).perm = <<1, 2, 3>> /\ Run(<<"PermSwap", "PermSwap">>).perm = <<1, 2, 3>>
    /\ \A w \in Words(2) : \A g \in {"TxPlus", "TyPlus", "TzFar"} : \A h \in {"Threads2", "Cross", "TxMinus"} :
          Run(w \o <<g, h>>) = Run(w \o <<h, g>>)                          \* translations commute with the other generators
Emit(k) == JsonSerialize(IOEnv.CASES_OUT, SetToSeq({ [word |-> w, final |-> Run(w)] : w \in Words(k) \ {<<>>} }))
=========================================================================================
