----------------------------------- MODULE HodSelect -----------------------------------
(* abacusnbody.hod.GRAND_HOD gen_cent / gen_sats selection rule — property C09.

   A host (halo for centrals, particle for satellites) has slice widths W = <<wL, wE, wQ>> (in units of
   1/16; 0 for a disabled tracer or a vanishing occupation) stacked in the order LRG, ELG, QSO from 0,
   and a stored uniform random number u (units of 1/32, so that slice interiors, edges and 0 are all present).
   Layer D: the host carries tracer T iff u lies in T's slice (cum_{<T}, cum_{<=T}], the first non-empty
   slice being closed at 0.  A value exactly on a slice edge may go to either neighbour (the comparison is
   between two floating-point numbers) — but never to a non-adjacent slice, and never to two tracers.       *)
EXTENDS Naturals, Sequences, SequencesExt, FiniteSets, TLC, Json, IOUtils

Tracers == <<"LRG", "ELG", "QSO">>
Cum(W, k) == IF k = 0 THEN 0 ELSE IF k = 1 THEN 2 * W[1] ELSE IF k = 2 THEN 2 * (W[1] + W[2]) ELSE 2 * (W[1] + W[2] + W[3])   \* in 1/32
\* acceptable outcomes: 0 = no galaxy, k = tracer k
Outcomes(W, u) ==
    LET inside == { k \in 1..3 : Cum(W, k - 1) < u /\ u < Cum(W, k) }
        \* exactly on an edge: any tracer whose closed slice [cum_{<T}, cum_{<=T}] contains u (a zero-width slice is the point
        \* itself), or no galaxy when u is 0 (the tracer owning the point may be disabled) or the top edge
        touching == { k \in 1..3 : Cum(W, k - 1) <= u /\ u <= Cum(W, k) }
    IN IF inside # {} THEN inside
       ELSE IF touching # {} THEN touching \cup (IF u = 0 \/ u = Cum(W, 3) THEN {0} ELSE {})
       ELSE {0}
\* the unambiguous outcome off every edge
Strict(W, u) == \A k \in 0..3 : u # Cum(W, k)

Widths == { <<a, b, c>> : a \in 0..3, b \in 0..3, c \in 0..3 }
Us == 0..32
(* theorems *)
AtMostOne == \A W \in Widths : \A u \in Us : Strict(W, u) => Cardinality(Outcomes(W, u)) = 1
\* enabling (widening from 0) a later tracer never changes whether an earlier tracer is selected
LaterNoChange == \A W \in Widths : \A u \in Us : \A k \in 2..3 : \A w \in 1..3 :
                    (W[k] = 0 /\ Strict(W, u) /\ Strict([W EXCEPT ![k] = w], u)) =>
                       \A j \in 1..(k - 1) : (j \in Outcomes(W, u)) = (j \in Outcomes([W EXCEPT ![k] = w], u))
\* nested in the incompleteness of the first tracer: a wider LRG slice keeps every LRG selection
NestedFirst == \A W \in Widths : \A u \in Us : \A w \in 0..3 :
                  (w >= W[1] /\ Strict(W, u) /\ Strict([W EXCEPT ![1] = w], u) /\ 1 \in Outcomes(W, u)) => 1 \in Outcomes([W EXCEPT ![1] = w], u)
\* nested under a common rescaling of all widths (incompleteness applied to every tracer alike)
Emit(x) == JsonSerialize(IOEnv.CASES_OUT, SetToSeq({ [W |-> W, u |-> u, out |-> SetToSeq(Outcomes(W, u))] : W \in Widths, u \in Us }))
=========================================================================================
