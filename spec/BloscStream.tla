-------------------------------- MODULE BloscStream --------------------------------
(* abacusnbody.data.asdf.BloscCompressor — property C14.

   The compressed stream is a sequence of frames, frame i = P-byte big-endian length
   prefix followed by Frames[i] compressed bytes.  Bytes are identified by their stream
   position, so a misaligned length key or a frame assembled from the wrong bytes is
   visible in the model.  The environment cuts the stream into read chunks arbitrarily
   (Deliver); the decompressor state machine (layer A) is the `for block in blocks /
   while len(block)` loop of BloscCompressor.decompress, one action per while-iteration,
   with the code's branches named in st.br.

   Layer D: whatever the chunking, at end of stream the output is all payloads in order
   and the reported length is their total decoded size.
   Writer side: see BloscWriter (bottom): frames per nelem = cbs \div itemsize items. *)
EXTENDS Naturals, Integers, Sequences, SequencesExt, FiniteSets, TLC, Json, IOUtils

CONSTANTS Frames,       \* sequence of compressed frame lengths (each >= 1)
          P,            \* length-prefix size (4 in the code)
          MaxEmpty,     \* max consecutive empty chunks the environment may deliver
          Mut           \* "none" = the code; other values are deliberately broken variants used as
                        \* positive controls (TLC must reject them): "fillpast", "noreset", "partial3"

NF == Len(Frames)
RECURSIVE SumTo(_)
SumTo(i) == IF i = 0 THEN 0 ELSE SumTo(i - 1) + P + Frames[i]
Total == SumTo(NF)
StartOf(i) == SumTo(i - 1) + 1                          \* position of first prefix byte of frame i
PrefixOf(i) == [k \in 1..P |-> StartOf(i) + k - 1]
PayloadOf(i) == [k \in 1..Frames[i] |-> StartOf(i) + P + k - 1]

(* ---------------- Layer D ---------------- *)
Expected == [i \in 1..NF |-> PayloadOf(i)]

(* ---------------- Layer A ---------------- *)
\* struct.unpack('!I', bytes): meaningful only when the bytes are exactly the prefix of one frame
PrefixVal(bs) == IF Len(bs) = P /\ \E i \in 1..NF : bs = PrefixOf(i)
                 THEN Frames[CHOOSE i \in 1..NF : bs = PrefixOf(i)]
                 ELSE -1
\* blosc.decompress_ptr(bytes): meaningful only when the bytes are exactly one frame's payload
IsPayload(bs) == \E i \in 1..NF : Len(bs) = Frames[i] /\ bs = PayloadOf(i)

Min2(a, b) == IF a < b THEN a ELSE b
Take(s, n) == SubSeq(s, 1, Min2(n, Len(s)))            \* Python slicing: never raises
Drop(s, n) == SubSeq(s, Min2(n, Len(s)) + 1, Len(s))

St0 == [size |-> 0, partial |-> <<>>, hasbuf |-> FALSE, buf |-> <<>>, block |-> <<>>,
        out |-> <<>>, bad |-> FALSE, br |-> "init", delivered |-> 0, empties |-> 0]

\* ---- first half of a while-iteration: `if not _size:` ...
\* returns the state after the prefix logic; field brk = TRUE when the code `break`s
PrefixPhase(s) ==
    IF s.size # 0 THEN [s EXCEPT !.br = "HaveSize"] @@ [brk |-> FALSE]
    ELSE IF Len(s.partial) + Len(s.block) < (IF Mut = "partial3" THEN P - 1 ELSE P)
         THEN [s EXCEPT !.partial = s.partial \o s.block, !.block = <<>>, !.br = "PrefixPartial"] @@ [brk |-> TRUE]
    ELSE IF s.partial # <<>>
         THEN LET rem == P - Len(s.partial)
                  key == s.partial \o Take(s.block, rem)
              IN [s EXCEPT !.size = PrefixVal(key), !.bad = s.bad \/ PrefixVal(key) < 1, !.partial = <<>>,
                           !.block = Drop(s.block, rem), !.br = "PrefixFinish"] @@ [brk |-> FALSE]
    ELSE LET key == Take(s.block, P)
         IN [s EXCEPT !.size = PrefixVal(key), !.bad = s.bad \/ PrefixVal(key) < 1,
                      !.block = Drop(s.block, P), !.br = "PrefixDirect"] @@ [brk |-> FALSE]

\* ---- second half: buffer path or direct path
PayloadPhase(s) ==
    IF Len(s.block) < s.size \/ s.hasbuf
    THEN LET buf0 == IF s.hasbuf THEN s.buf ELSE <<>>
             nb   == IF Mut = "fillpast" THEN Len(s.block) ELSE Min2(s.size - Len(buf0), Len(s.block))
             buf1 == buf0 \o Take(s.block, nb)
         IN IF Len(buf1) = s.size
            THEN [s EXCEPT !.out = Append(s.out, buf1), !.bad = s.bad \/ ~IsPayload(buf1),
                           !.hasbuf = FALSE, !.buf = <<>>, !.size = IF Mut = "noreset" THEN s.size ELSE 0, !.block = Drop(s.block, nb),
                           !.br = s.br \o "+BufferFlush"]
            ELSE [s EXCEPT !.hasbuf = TRUE, !.buf = buf1, !.block = Drop(s.block, nb), !.br = s.br \o "+BufferFill"]
    ELSE LET fr == Take(s.block, s.size)
         IN [s EXCEPT !.out = Append(s.out, fr), !.bad = s.bad \/ ~IsPayload(fr), !.size = 0,
                      !.block = Drop(s.block, s.size), !.br = s.br \o "+DirectFrame"]

StripBrk(r) == [k \in DOMAIN r \ {"brk"} |-> r[k]]

\* one iteration of `while len(block):`
Iter(s) == LET a == PrefixPhase(s) IN
           IF a.bad THEN StripBrk(a)
           ELSE IF a.brk THEN StripBrk(a) ELSE PayloadPhase(StripBrk(a))

VARIABLE st
vars == <<st>>

Init == st = St0

\* the environment hands over the next n stream bytes as one read chunk
Deliver(n) == /\ st.block = <<>> /\ ~st.bad
              /\ n \in 0..(Total - st.delivered)
              /\ (n = 0) => st.empties < MaxEmpty
              /\ st' = [st EXCEPT !.block = [k \in 1..n |-> st.delivered + k],
                                  !.delivered = st.delivered + n,
                                  !.empties = IF n = 0 THEN st.empties + 1 ELSE 0,
                                  !.br = "Deliver"]
Step == /\ st.block # <<>> /\ ~st.bad
        /\ st' = Iter(st)

Next == (\E n \in 0..Total : Deliver(n)) \/ Step
Spec == Init /\ [][Next]_vars

(* ---- invariants ---- *)
TypeOK == /\ st.size \in -1..Total /\ Len(st.partial) < P
NoBad == ~st.bad                                                  \* every length key / frame is aligned
OutPrefix == /\ Len(st.out) <= NF
             /\ \A i \in 1..Len(st.out) : st.out[i] = PayloadOf(i)
SizeOK == (st.size # 0 /\ ~st.bad) => (Len(st.out) < NF /\ st.size = Frames[Len(st.out) + 1])
PartialOK == (st.partial # <<>>) => (st.size = 0 /\ Len(st.out) < NF /\ st.partial = Take(PrefixOf(Len(st.out) + 1), Len(st.partial)))
BufOK == st.hasbuf => (st.size # 0 /\ Len(st.buf) < st.size /\ st.buf = Take(PayloadOf(Len(st.out) + 1), Len(st.buf)))
\* no byte is lost or duplicated: consumed bytes + pending bytes = delivered bytes
Accounting == ~st.bad =>
    LET done == SumTo(Len(st.out))
        pend == Len(st.partial) + (IF st.size # 0 THEN P ELSE 0) + (IF st.hasbuf THEN Len(st.buf) ELSE 0)
    IN done + pend + Len(st.block) = st.delivered
\* the `while len(block):` loop terminates: every iteration consumes at least one byte of the chunk (or flags the stream)
Progress == [][(st.block # <<>> /\ ~st.bad) => (st'.bad \/ Len(st'.block) < Len(st.block))]_vars
FinalOK == (st.delivered = Total /\ st.block = <<>>) =>
             (st.out = Expected /\ st.size = 0 /\ st.partial = <<>> /\ ~st.hasbuf)

(* ---- M2: chunkings as data.  A chunking is a sequence of chunk lengths summing to Total;
   RunChunk drains one chunk through Iter; Observe projects the state the hook reports. ---- *)
RECURSIVE Drain(_)
Drain(s) == IF s.block = <<>> \/ s.bad THEN s ELSE Drain(Iter(s))
Feed(s, n) == Drain([s EXCEPT !.block = [k \in 1..n |-> s.delivered + k], !.delivered = s.delivered + n])
Observe(s) == [size |-> s.size, npartial |-> Len(s.partial), hasbuf |-> s.hasbuf, pos |-> Len(s.buf),
               nout |-> Len(s.out), bad |-> s.bad]
RunChunks(cs) == LET F[k \in 0..Len(cs)] == IF k = 0 THEN St0 ELSE Feed(F[k - 1], cs[k])
                 IN [k \in 1..Len(cs) |-> Observe(F[k])]
FinalOf(cs) == LET F[k \in 0..Len(cs)] == IF k = 0 THEN St0 ELSE Feed(F[k - 1], cs[k]) IN F[Len(cs)]

\* all compositions of n (ordered sequences of positive parts)
RECURSIVE Compositions(_)
Compositions(n) == IF n = 0 THEN {<<>>}
                   ELSE UNION { {<<k>> \o c : c \in Compositions(n - k)} : k \in 1..n }
\* insert one empty chunk at every position of a composition
WithEmpty(c) == {c} \cup { Take(c, k) \o <<0>> \o Drop(c, k) : k \in 0..Len(c) }

\* (operators take an argument so that TLC does not evaluate them eagerly as constants)
ChunkingCases(n) == UNION { WithEmpty(c) : c \in Compositions(n) }
DChunkTheorem(n) == \A cs \in ChunkingCases(n) : LET f == FinalOf(cs) IN
                    f.out = Expected /\ ~f.bad /\ f.size = 0 /\ f.partial = <<>> /\ ~f.hasbuf
EmitChunkings(n) == JsonSerialize(IOEnv.CASES_OUT,
                    SetToSeq({ [chunks |-> cs, obs |-> RunChunks(cs)] : cs \in ChunkingCases(n) }))

(* ---------------- Writer side: BloscCompressor.compress ----------------
   n items of `itemsize` bytes, compression block size cbs bytes (cbs >= itemsize):
   nelem = cbs \div itemsize items per frame; frame j holds items (j-1)*nelem+1 .. min(j*nelem, n). *)
Nelem(itemsize, cbs) == cbs \div itemsize
CeilDiv(a, b) == (a + b - 1) \div b
FrameItems(n, itemsize, cbs) ==
    LET ne == Nelem(itemsize, cbs) IN
    [j \in 1..CeilDiv(n, ne) |-> [first |-> (j - 1) * ne, count |-> Min2(ne, n - (j - 1) * ne)]]
WriterCases(MaxItems, ItemSizes, Cbs) ==
    { [n |-> t[1], itemsize |-> t[2], cbs |-> t[3], frames |-> FrameItems(t[1], t[2], t[3])] :
        t \in { u \in (0..MaxItems) \X ItemSizes \X Cbs : u[3] >= u[2] } }
WriterTheorem(MaxItems, ItemSizes, Cbs) ==
    \A wc \in WriterCases(MaxItems, ItemSizes, Cbs) :
       LET f == wc.frames IN
       /\ \A j \in 1..Len(f) : f[j].count >= 1 /\ f[j].count * wc.itemsize <= wc.cbs
       /\ (Len(f) = 0) = (wc.n = 0)
       /\ \A j \in 1..Len(f) : f[j].first = (IF j = 1 THEN 0 ELSE f[j - 1].first + f[j - 1].count)
       /\ (Len(f) > 0 => f[Len(f)].first + f[Len(f)].count = wc.n)
====================================================================================
