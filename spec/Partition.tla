---------------------------------- MODULE Partition ----------------------------------
(* abacusnbody.analysis.tsc.partition_parallel — property C17.

   Coordinates are lattice integers x in 0..(NP*R): R lattice points per stripe, so that
   stripe boundaries (multiples of R) and the value BoxSize (NP*R) are on the lattice.
   A particle is its index i in the input (the weight/tag moves with it).

   Layer D : StripeOf, ExpectedStarts, IsPartitionOf (what the result must be)
   Layer A : the algorithm — per-thread histogram over contiguous blocks, transposed exclusive
             prefix sum, scatter through per-thread pointers — as T interleaved workers whose
             array accesses are individual steps.  Invariants: no two workers ever write the
             same output slot, every slot is written exactly once, the result satisfies D. *)
EXTENDS Naturals, Integers, Sequences, SequencesExt, FiniteSets, FiniteSetsExt, TLC, Json, IOUtils

(* ---------------- Layer D ---------------- *)
StripeOf(x, np, R) == IF x \div R >= np THEN np - 1 ELSE x \div R       \* last stripe closed above
CountBelow(xs, s, np, R) == Cardinality({ i \in 1..Len(xs) : StripeOf(xs[i], np, R) < s })
ExpectedStarts(xs, np, R) == [s \in 1..(np + 1) |-> CountBelow(xs, s - 1, np, R)]     \* starts[0..np]
\* out: sequence of input indices (the permutation); starts: np+1 offsets
IsPartitionOf(out, starts, xs, np, R, sorted) ==
    /\ Len(out) = Len(xs)
    /\ { out[k] : k \in 1..Len(out) } = 1..Len(xs)                       \* a permutation (weights move with it)
    /\ starts = ExpectedStarts(xs, np, R)
    /\ \A k \in 1..Len(out) : \A s \in 0..(np - 1) :
          (starts[s + 1] < k /\ k <= starts[s + 2]) => StripeOf(xs[out[k]], np, R) = s
    /\ sorted => \A k \in 1..(Len(out) - 1) :
          StripeOf(xs[out[k]], np, R) = StripeOf(xs[out[k + 1]], np, R) => xs[out[k]] <= xs[out[k + 1]]

\* M2 enumeration: all inputs of length <= MaxLen over the lattice
RECURSIVE Inputs(_, _)
Inputs(n, V) == IF n = 0 THEN {<<>>} ELSE LET S == Inputs(n - 1, V) IN
                S \cup { Append(q, v) : q \in { t \in S : Len(t) = n - 1 }, v \in V }
StripeSets(xs, np, R) == [s \in 1..np |-> SetToSortSeq({ i \in 1..Len(xs) : StripeOf(xs[i], np, R) = s - 1 }, <)]
DCases(MaxLen, NPs, R) ==
    { [xs |-> c[2], np |-> c[1], R |-> R, starts |-> ExpectedStarts(c[2], c[1], R), members |-> StripeSets(c[2], c[1], R)] :
        c \in UNION { {p} \X Inputs(MaxLen, 0..(p * R)) : p \in NPs } }
EmitCases(MaxLen, NPs, R) == JsonSerialize(IOEnv.CASES_OUT, SetToSeq(DCases(MaxLen, NPs, R)))

(* ---------------- Layer A ---------------- *)
CONSTANTS MaxLen,    \* inputs explored: every sequence of at most MaxLen lattice coordinates
          NPART,     \* number of stripes
          RR,        \* lattice points per stripe
          T,         \* threads
          Mut        \* "none" | "notranspose" | "sharedhist" | "openlast"  (positive controls)

VARIABLE xs          \* the input coordinates, chosen by the environment in Init and never modified
N == Len(xs)
TStart(t) == (N * t) \div T                 \* np.linspace(0, N, T+1).astype(int64), t = 0..T
Block(t) == (TStart(t) + 1)..TStart(t + 1)  \* 1-based input indices of thread t (t = 0..T-1)
Key(i) == IF Mut = "openlast" THEN xs[i] \div RR ELSE StripeOf(xs[i], NPART, RR)

VARIABLES phase,     \* "hist" | "scatter" | "done"
          pos,       \* pos[t]: next input index of worker t in the current phase
          reg,       \* reg[t]: value read by worker t and not yet written back (-1: none)
          counts,    \* counts[t][k]
          ptr,       \* ptr[t][k] scatter pointers (0-based output slots)
          outp,      \* outp[slot] = input index written there, 0 = unwritten
          writes     \* number of writes per slot (ghost)
vars == <<xs, phase, pos, reg, counts, ptr, outp, writes>>
Thr == 0..(T - 1)
Str == 0..(NPART - 1)
HistOwner(t) == IF Mut = "sharedhist" THEN 0 ELSE t     \* a histogram shared between threads (control)

Init == /\ xs \in Inputs(MaxLen, 0..(NPART * RR))
        /\ phase = "hist"
        /\ pos = [t \in Thr |-> TStart(t) + 1]
        /\ reg = [t \in Thr |-> -1]
        /\ counts = [t \in Thr |-> [k \in Str |-> 0]]
        /\ ptr = [t \in Thr |-> [k \in Str |-> 0]]
        /\ outp = [s \in 1..N |-> 0]
        /\ writes = [s \in 1..N |-> 0]

InRange(k) == k \in Str
\* counts[t, keys[i]] += 1   as read then write
HistRead(t) == /\ phase = "hist" /\ pos[t] <= TStart(t + 1) /\ reg[t] = -1
               /\ InRange(Key(pos[t]))
               /\ reg' = [reg EXCEPT ![t] = counts[HistOwner(t)][Key(pos[t])]]
               /\ UNCHANGED <<phase, pos, counts, ptr, outp, writes>>
HistWrite(t) == /\ phase = "hist" /\ pos[t] <= TStart(t + 1) /\ reg[t] # -1
                /\ counts' = [counts EXCEPT ![HistOwner(t)][Key(pos[t])] = reg[t] + 1]
                /\ reg' = [reg EXCEPT ![t] = -1]
                /\ pos' = [pos EXCEPT ![t] = @ + 1]
                /\ UNCHANGED <<phase, ptr, outp, writes>>
\* pointers = exclusive prefix sum of counts.T (stripe-major, thread-minor), reshaped (NPART, T) and transposed
Flat(k, t) == k * T + t
PrefixAt(f) == LET S[j \in 0..f] == IF j = 0 THEN 0 ELSE S[j - 1] + counts[(j - 1) % T][(j - 1) \div T] IN S[f]
Pointer(t, k) == IF Mut = "notranspose" THEN PrefixAt(t * NPART + k) ELSE PrefixAt(Flat(k, t))
Barrier1 == /\ phase = "hist" /\ \A t \in Thr : pos[t] > TStart(t + 1)
            /\ phase' = "scatter"
            /\ ptr' = [t \in Thr |-> [k \in Str |-> Pointer(t, k)]]
            /\ pos' = [t \in Thr |-> TStart(t) + 1]
            /\ UNCHANGED <<reg, counts, outp, writes>>
\* s = pointers[t, k]; psort[s] = pos[i]; pointers[t, k] += 1     (pointers row t is private to t)
Scatter(t) == /\ phase = "scatter" /\ pos[t] <= TStart(t + 1)
              /\ LET k == Key(pos[t])  s == ptr[t][k] + 1 IN
                 /\ s \in 1..N
                 /\ outp' = [outp EXCEPT ![s] = pos[t]]
                 /\ writes' = [writes EXCEPT ![s] = @ + 1]
                 /\ ptr' = [ptr EXCEPT ![t][k] = @ + 1]
              /\ pos' = [pos EXCEPT ![t] = @ + 1]
              /\ UNCHANGED <<phase, reg, counts>>
Barrier2 == /\ phase = "scatter" /\ \A t \in Thr : pos[t] > TStart(t + 1)
            /\ phase' = "done"
            /\ UNCHANGED <<pos, reg, counts, ptr, outp, writes>>
Next == /\ ((\E t \in Thr : HistRead(t) \/ HistWrite(t) \/ Scatter(t)) \/ Barrier1 \/ Barrier2)
        /\ UNCHANGED xs
Spec == Init /\ [][Next]_vars

BlocksPartition == /\ TStart(0) = 0 /\ TStart(T) = N
                   /\ \A t \in Thr : TStart(t) <= TStart(t + 1)
\* C11: every index expression stays inside its array
InBounds == /\ (phase = "hist") => \A t \in Thr : pos[t] <= TStart(t + 1) => InRange(Key(pos[t]))
            /\ (phase = "scatter") => \A t \in Thr : pos[t] <= TStart(t + 1) => (InRange(Key(pos[t])) /\ ptr[t][Key(pos[t])] + 1 \in 1..N)
NoDoubleWrite == \A s \in 1..N : writes[s] <= 1
Starts == [s \in 1..(NPART + 1) |-> IF s = NPART + 1 THEN N ELSE Pointer(0, s - 1)]
\* the code reads starts from pointers[0] before the scatter; evaluate it at the barrier state
StartsOK == (phase = "scatter" /\ \A t \in Thr : pos[t] = TStart(t) + 1) =>
               [s \in 1..(NPART + 1) |-> IF s = NPART + 1 THEN N ELSE ptr[0][s - 1]] = ExpectedStarts(xs, NPART, RR)
RefinesD == (phase = "done") =>
               /\ \A s \in 1..N : writes[s] = 1
               /\ IsPartitionOf(outp, ExpectedStarts(xs, NPART, RR), xs, NPART, RR, FALSE)
======================================================================================
