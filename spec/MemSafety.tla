------------------------------------ MODULE MemSafety ------------------------------------
(* Property C11 — compiled kernels never access memory outside their arrays.

   The index arithmetic of most kernels is modelled, with InBounds invariants, in the module of the property that owns
   the kernel (Cumsum, Partition, TwoPass, CatalogIndex, MassAssign, ModeBinning, BloscStream); the C11 check re-runs
   those models at their boundary constants.  This module adds the remaining index-carrying kernels, each as the set of
   index expressions it evaluates (layer A) against the length of the array indexed:
     PassLoop      _tsc_parallel: starts[2i], starts[2i+1] in pass 1; starts[2i+1], starts[2i+2] in pass 2
     Interp        linear_interp: y[fl], y[fl+1] with fl = int((xd - x0)/dx), where the float quotient may round UP to the next
                   integer when xd is within rounding of a knot
     SpherePoints  getPointsOnSphere: hstart[tid], hstart[tid+1] for tid in prange(Nthread), hstart of length min(Nthread, nPoints)+1
     Searchsorted  _searchsorted_parallel / pinds: result in 0..len(a)
   Variant "pinned" keeps the original expressions as positive controls.                                               *)
EXTENDS Naturals, Integers, Sequences, FiniteSets, TLC

CONSTANT Variant
Legal(i, len) == i >= -len /\ i < len

(* ---- _tsc_parallel pass loops ---- *)
PassIdx(np) ==
    LET p1 == UNION { {2 * i, 2 * i + 1} : i \in 0..(((np + 1) \div 2) - 1) }
        n2 == IF Variant = "pinned" THEN (np + 1) \div 2 ELSE np \div 2
        p2 == IF np > 1 THEN UNION { {2 * i + 1, 2 * i + 2} : i \in 0..(n2 - 1) } ELSE {}
    IN p1 \cup p2
PassLoopOK(np) == \A ix \in PassIdx(np) : Legal(ix, np + 1)
\* every stripe is deposited exactly once (pass 1: even stripes, pass 2: odd stripes)
PassCoverOK(np) ==
    LET n2 == IF Variant = "pinned" THEN (np + 1) \div 2 ELSE np \div 2
        s1 == { 2 * i : i \in 0..(((np + 1) \div 2) - 1) }
        s2 == IF np > 1 THEN { 2 * i + 1 : i \in 0..(n2 - 1) } ELSE {}
    IN (s1 \cup s2) \cap (0..(np - 1)) = 0..(np - 1) /\ s1 \cap s2 = {}

(* ---- linear_interp: n knots at 0, D, 2D, ... (lattice of D sub-steps per knot spacing); xd strictly inside (x0, x_last) ---- *)
InterpIdx(n, D, xd) ==
    LET fexact == xd \div D
        \* the float quotient can equal the next integer when xd is one lattice step below a knot
        fls == IF (xd + 1) % D = 0 THEN {fexact, fexact + 1} ELSE {fexact}
        clamp(f) == IF Variant = "pinned" THEN f ELSE (IF f > n - 2 THEN n - 2 ELSE f)
    IN UNION { {clamp(f), clamp(f) + 1} : f \in fls }
InterpOK(n, D) == \A xd \in 1..((n - 1) * D - 1) : \A ix \in InterpIdx(n, D, xd) : Legal(ix, n) /\ ix >= 0

(* ---- getPointsOnSphere ---- *)
Min2(a, b) == IF a < b THEN a ELSE b
SphereIdx(nPoints, Nthread) ==
    LET ind == Min2(Nthread, nPoints)
        top == IF Variant = "pinned" THEN Nthread ELSE ind
    IN UNION { {t, t + 1} : t \in 0..(top - 1) }
SphereOK(nPoints, Nthread) == \A ix \in SphereIdx(nPoints, Nthread) : Legal(ix, Min2(Nthread, nPoints) + 1)

AllOK(MaxNP, MaxKnots, MaxT) ==
    /\ \A np \in 1..MaxNP : PassLoopOK(np) /\ PassCoverOK(np)
    /\ \A n \in 2..MaxKnots : \A D \in {1, 2, 4} : InterpOK(n, D)
    /\ \A p \in 0..MaxT : \A t \in 1..MaxT : SphereOK(p, t)
Faults(MaxNP, MaxKnots, MaxT) ==
    [passloop |-> { np \in 1..MaxNP : ~PassLoopOK(np) }, interp |-> { n \in 2..MaxKnots : ~InterpOK(n, 4) },
     sphere |-> { <<p, t>> \in (0..MaxT) \X (1..MaxT) : ~SphereOK(p, t) }]
==========================================================================================
