-------------------------------------- MODULE Menv --------------------------------------
(* abacusnbody.hod.menv — batched neighbour mass sums (a call site of util.cumsum, property C19, and of the msum_core kernel,
   property C11).  Not a listed property of its own: it extends the specification to the local-environment calculation.

   Centres 1..N are processed in batches [i, min(i+b, N)) for i = 0, b, 2b, ...; for one batch the tree query returns, per centre,
   a list of neighbour indices; concat_to_arr flattens the lists (starts = cumsum of the lengths with initial and final element)
   and msum_core adds sign * (sum of the neighbour masses) to out[p] for every centre p of the batch.
   Layer D: out[p] = sum of the masses of p's neighbours, whatever the batch size; every centre is processed exactly once.
   Layer A: the batching loop, concat_to_arr and msum_core as index arithmetic with InBounds on starts / inds / masses.   *)
EXTENDS Naturals, Integers, Sequences, SequencesExt, FiniteSets, TLC

\* neighbour lists: a sequence (one entry per centre) of sequences of indices into masses (1-based here)
Batches(N, b) == { <<i, IF i + b < N THEN i + b ELSE N>> : i \in { k \in 0..(N - 1) : k % b = 0 } }     \* half-open [lo, hi) in 0-based centres
\* every centre in exactly one batch
BatchesPartition(N, b) == /\ UNION { (r[1] + 1)..r[2] : r \in Batches(N, b) } = 1..N
                          /\ \A r1, r2 \in Batches(N, b) : r1 # r2 => ((r1[1] + 1)..r1[2]) \cap ((r2[1] + 1)..r2[2]) = {}
\* concat_to_arr on the lists of one batch
Starts(lists) == LET S[k \in 0..Len(lists)] == IF k = 0 THEN 0 ELSE S[k - 1] + Len(lists[k]) IN [k \in 1..(Len(lists) + 1) |-> S[k - 1]]
Flat(lists) == FlattenSeq(lists)
SumOver(masses, idxs) == LET S[k \in 0..Len(idxs)] == IF k = 0 THEN 0 ELSE S[k - 1] + masses[idxs[k]] IN S[Len(idxs)]
\* msum_core for centre p (1-based within the batch): masses[inds[starts[p] : starts[p+1]]]
MsumIdx(lists, p) == LET st == Starts(lists) IN SubSeq(Flat(lists), st[p] + 1, st[p + 1])
MsumInBounds(lists, nmass) == LET st == Starts(lists) IN
    /\ Len(st) = Len(lists) + 1 /\ st[1] = 0 /\ st[Len(st)] = Len(Flat(lists))
    /\ \A p \in 1..Len(lists) : st[p] <= st[p + 1] /\ \A k \in 1..Len(MsumIdx(lists, p)) : MsumIdx(lists, p)[k] \in 1..nmass
\* A: result of the batched computation
Batched(nbrs, masses, b) ==
    [p \in 1..Len(nbrs) |->
        LET r == CHOOSE rr \in Batches(Len(nbrs), b) : p > rr[1] /\ p <= rr[2]
            lists == SubSeq(nbrs, r[1] + 1, r[2])
        IN SumOver(masses, MsumIdx(lists, p - r[1]))]
\* D
Direct(nbrs, masses) == [p \in 1..Len(nbrs) |-> SumOver(masses, nbrs[p])]
\* enumeration: N centres, each with a neighbour list drawn from a small family
Lists(nm) == { <<>>, <<1>>, <<nm>>, <<1, nm>>, <<2, 1, 2>> }
AllOK(MaxN, nm) ==
    \A N \in 1..MaxN : \A nbrs \in [1..N -> Lists(nm)] : \A b \in 1..(N + 1) :
        LET masses == [k \in 1..nm |-> k * k] IN
        /\ BatchesPartition(N, b)
        /\ \A r \in Batches(N, b) : MsumInBounds(SubSeq(nbrs, r[1] + 1, r[2]), nm)
        /\ Batched(nbrs, masses, b) = Direct(nbrs, masses)
=========================================================================================
