-------------------------------- MODULE TscDecisions --------------------------------
(* Layer T for TscStripes: decisions and footprints OBSERVED on the real tsc_parallel /
   partition_parallel / _tsc_scatter are judged against layer D.

   Obs.decisions : [n1d, nthread, arg, accepted, np]  one per real call (np = the stripe count the
                   code reported through the 'tsc_config' hook; arg = 0 for the default)
   Obs.footprints: [n1d, np, o, touched, nz]  touched[s+1] / nz[s+1] = rows stripe s read-modify-wrote /
                   changed, recorded from the real kernels on the full lattice particle set      *)
EXTENDS TscStripes, Json, IOUtils, SequencesExt

\* NOTE: the observation file is parsed ONCE, inside the LET of Verdict; every operator takes the parsed value as a parameter
\* (a zero-arity definition over IOEnv is re-evaluated — the file re-parsed — on every reference).

\* an accepted configuration that the specification cannot prove free of lost updates
ConcurrentPairs(obs) == { <<obs.decisions[i].n1d, obs.decisions[i].np>> : i \in
                            { j \in 1..Len(obs.decisions) : obs.decisions[j].accepted /\ obs.decisions[j].nthread > 1 /\ obs.decisions[j].np > 2 } }
UnsafePairsObserved(obs, pairs) == { pr \in pairs : \E o \in ToSet(obs.offsets) : ~Safe(pr[2], pr[1], o) }
UnsafeObserved(obs, unsafe) == { i \in 1..Len(obs.decisions) :
                                   LET d == obs.decisions[i] IN
                                   d.accepted /\ d.nthread > 1 /\ d.np > 2 /\ <<d.n1d, d.np>> \in unsafe }
\* a rejected configuration must be one the rule is allowed to reject: anything with >2 stripes
\* and >1 thread may be rejected; 1 thread or <=2 stripes never needs rejection (not an error to
\* reject, only recorded)
\* observed footprints: pairwise conflict among same-pass stripes, on the rows the real code touched
FootprintConflicts(obs) == { i \in 1..Len(obs.footprints) :
                               LET f == obs.footprints[i] IN
                               \E s, u \in 0..(f.np - 1) :
                                  /\ s < u /\ SamePass(s, u)
                                  /\ \/ ToSet(f.touched[s + 1]) \cap ToSet(f.nz[u + 1]) # {}
                                     \/ ToSet(f.nz[s + 1]) \cap ToSet(f.touched[u + 1]) # {} }
\* drift: real rows outside the model's stripe footprint (model too small => TLC's Safe would be unsound)
FootprintOutsideModel(obs) == { i \in 1..Len(obs.footprints) :
                                  LET f == obs.footprints[i] IN
                                  \E s \in 0..(f.np - 1) :
                                     \/ ~(ToSet(f.touched[s + 1]) \subseteq StripeRows(s, f.np, f.n1d, f.o))
                                     \/ ~(ToSet(f.nz[s + 1]) \subseteq StripeRowsNZ(s, f.np, f.n1d, f.o)) }
Verdict(x) == LET obs == JsonDeserialize(IOEnv.TRACE_FILE)
                  pairs == ConcurrentPairs(obs)
                  unsafe == UnsafePairsObserved(obs, pairs)
              IN [unsafe |-> SetToSeq(UnsafeObserved(obs, unsafe)), conflicts |-> SetToSeq(FootprintConflicts(obs)),
                  outside |-> SetToSeq(FootprintOutsideModel(obs))]
EmitVerdict(x) == JsonSerialize(IOEnv.VERDICT_OUT, Verdict(x))
=====================================================================================
