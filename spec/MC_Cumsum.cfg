CONSTANTS
  MaxN = 4
  Slack = 2
  GuardEmpty = TRUE
  Vals <- MCVals
  Offs <- MCOffs
SPECIFICATION Spec
INVARIANT InBounds
INVARIANT RejectsIff
INVARIANT AcceptsIff
INVARIANT RefinesD
INVARIANT WriteOnce
