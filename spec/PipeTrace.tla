----------------------------------- MODULE PipeTrace -----------------------------------
(* Layer T for PipeFraming: write events recorded from the real unpack_to_pipe (a recording pipe object)
   and from the CLI through an OS pipe.  Each run: the abstract files, the request, the outcome
   (error name or "") and the sequence of writes <<nbytes, value>> where value is the decoded integer for
   8/4-byte header writes and a checksum of the bytes otherwise; sums[k][field] is the checksum of the raw
   bytes of that column in file k.  TLC checks every run against layer D. *)
EXTENDS PipeFraming, TLCExt

Runs == JsonDeserialize(IOEnv.TRACE_FILE)

FileOf(sq) == [g \in { sq[i][1] : i \in 1..Len(sq) } |->
                 LET i == CHOOSE j \in 1..Len(sq) : sq[j][1] = g IN [n |-> sq[i][2], w |-> sq[i][3]]]
FilesOf(r) == [k \in 1..Len(r.files) |-> FileOf(r.files[k])]

SumOf(r, k, f) == LET sq == r.sums[k] IN sq[CHOOSE j \in 1..Len(sq) : sq[j][1] = f][2]
WantEvents(r) ==
    LET toks == Expected(FilesOf(r), r.exists, r.fields).tokens IN
    [t \in 1..Len(toks) |-> IF toks[t][1] = "payload" THEN <<toks[t][3], SumOf(r, toks[t][2], toks[t][4])>>
                            ELSE <<toks[t][3], toks[t][2]>>]
RunOK(r) == LET e == Expected(FilesOf(r), r.exists, r.fields) IN
            /\ r.error = e.error
            /\ (e.error # "" => Len(r.events) = 0)                       \* nothing written before the error
            /\ (e.error = "" => r.events = WantEvents(r))
BadRuns == { i \in 1..Len(Runs) : ~RunOK(Runs[i]) }
EmitVerdict(x) == JsonSerialize(IOEnv.VERDICT_OUT, [bad |-> SetToSeq(BadRuns), n |-> Len(Runs)])
========================================================================================
