------------------------------------ MODULE HodConfig ------------------------------------
(* Configuration contract between the writer of the HOD subsample files (abacusnbody.hod.prepare_sim.main) and their reader
   (abacusnbody.hod.abacus_hod.AbacusHOD.__init__ / staging) — extended coverage (hosted by C12).

   Both sides take the same YAML configuration and must agree on
     (1) the class of the mock redshift: primary (halo + particle outputs), secondary (halos only), illegal;
         light-cone catalogues override the table.  The two tables are transcribed SEPARATELY below (W* from prepare_sim.py,
         R* from abacus_hod.py) and TLC proves them equal on every redshift either side knows;
     (2) the directory of the subsample files: writer  subsample_dir + simname + '/z' + str(z).ljust(5, '0')   (string concatenation),
                                               reader  Path(subsample_dir) / simname / ('z%4.3f' % z);
     (3) the multi-tracer flag that selects the `_MT` file names (see PrepareSim.tla NameContract) and the tracer dictionary.
   Redshifts are integers in thousandths (z = 0.575 is 575); decimal strings are sequences of characters.                       *)
EXTENDS Naturals, Sequences, SequencesExt, FiniteSets, TLC, Json, IOUtils

WPrimary == {3000, 2500, 2000, 1700, 1400, 1100, 800, 500, 400, 300, 200, 100, 0}
WSecondary == {150, 250, 350, 450, 575, 650, 725, 875, 950, 1025, 1175, 1250, 1325, 1475, 1550, 1625, 1850, 2250, 2750, 3000, 5000, 8000}
RPrimary == {3000, 2500, 2000, 1700, 1400, 1100, 800, 500, 400, 300, 200, 100, 0}
RSecondary == {150, 250, 350, 450, 575, 650, 725, 875, 950, 1025, 1175, 1250, 1325, 1475, 1550, 1625, 1850, 2250, 2750, 3000, 5000, 8000}

ZType(z, lc, prim, sec) == IF lc THEN "lightcone" ELSE IF z \in prim THEN "primary" ELSE IF z \in sec THEN "secondary" ELSE "illegal"
WType(z, lc) == ZType(z, lc, WPrimary, WSecondary)
RType(z, lc) == ZType(z, lc, RPrimary, RSecondary)
Known == WPrimary \cup WSecondary \cup RPrimary \cup RSecondary
Probe == Known \cup {50, 575 + 1, 1000, 2999, 3001, 10500}              \* and a few the tables do not list
TypeContract == \A z \in Probe : \A lc \in BOOLEAN : WType(z, lc) = RType(z, lc)

\* ---- decimal strings
Digit(d) == <<"0", "1", "2", "3", "4", "5", "6", "7", "8", "9">>[d + 1]
RECURSIVE IntStr(_)
IntStr(n) == IF n < 10 THEN <<Digit(n)>> ELSE IntStr(n \div 10) \o <<Digit(n % 10)>>
Frac3(f) == <<Digit(f \div 100), Digit((f \div 10) % 10), Digit(f % 10)>>
\* Python's str(float) for a number with at most three decimals: shortest representation, at least one decimal
FracShort(f) == IF f % 100 = 0 THEN <<Digit(f \div 100)>> ELSE IF f % 10 = 0 THEN <<Digit(f \div 100), Digit((f \div 10) % 10)>> ELSE Frac3(f)
PyStr(z) == IntStr(z \div 1000) \o <<".">> \o FracShort(z % 1000)
LJust5(s) == IF Len(s) >= 5 THEN s ELSE s \o [i \in 1..(5 - Len(s)) |-> "0"]
WriterZDir(z) == <<"z">> \o LJust5(PyStr(z))                      \* '/z' + str(z_mock).ljust(5, '0')
ReaderZDir(z) == <<"z">> \o IntStr(z \div 1000) \o <<".">> \o Frac3(z % 1000)      \* 'z%4.3f' % z_mock
ZDirContract == \A z \in Known : WriterZDir(z) = ReaderZDir(z)
\* where the two formats part (not a legal redshift today: recorded, not required)
ZDirDiffer(Top) == { z \in 0..Top : WriterZDir(z) # ReaderZDir(z) }

\* ---- directory of the subsample files: the writer concatenates strings, the reader joins path components
WriterDir(sub, sim, z) == sub \o sim \o <<"/">> \o WriterZDir(z)
ReaderDir(sub, sim, z) == (IF sub # <<>> /\ sub[Len(sub)] = "/" THEN sub ELSE sub \o <<"/">>) \o sim \o <<"/">> \o ReaderZDir(z)
DirContract == \A z \in Known : LET sim == <<"S">> IN
                  /\ WriterDir(<<"d", "/">>, sim, z) = ReaderDir(<<"d", "/">>, sim, z)             \* subsample_dir given with its trailing slash
                  /\ WriterDir(<<"d">>, sim, z) # ReaderDir(<<"d">>, sim, z)                        \* without it the two sides look in different places

\* ---- multi-tracer flag and tracer dictionary
Flags == [LRG : BOOLEAN, ELG : BOOLEAN, QSO : BOOLEAN]
WriterMT(f) == f.ELG \/ f.QSO
ReaderMT(f, force) == f.ELG \/ f.QSO \/ force
Tracers(f) == { t \in {"LRG", "ELG", "QSO"} : f[t] }
MTContract == \A f \in Flags : WriterMT(f) = ReaderMT(f, FALSE)

Theorems == TypeContract /\ ZDirContract /\ DirContract /\ MTContract

Str(s) == FoldLeft(LAMBDA a, c : a \o c, "", s)
Emit(x) == JsonSerialize(IOEnv.CASES_OUT,
    [z |-> SetToSeq({ [z |-> z, lc |-> lc, type |-> WType(z, lc), wdir |-> Str(WriterZDir(z)), rdir |-> Str(ReaderZDir(z))] : z \in Probe, lc \in BOOLEAN }),
     flags |-> SetToSeq({ [f |-> f, mt |-> WriterMT(f), tracers |-> SetToSeq(Tracers(f))] : f \in Flags }),
     differ |-> SetToSeq(ZDirDiffer(12000))])
==========================================================================================
