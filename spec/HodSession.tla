----------------------------------- MODULE HodSession -----------------------------------
(* abacusnbody.hod.abacus_hod.AbacusHOD as a long-lived object — extended coverage (hosted by C10).

   One AbacusHOD instance is staged once and then serves many calls:
       run_hod(tracers, want_rsd, reseed, write_to_disk)     compute_ngal(tracers)     gal_reader(want_rsd)
   The only state a call may leave behind is
     * the random-number epoch: `reseed = s` (s non-zero) replaces the staged halo / particle randoms by the stream of
       seed s, and the replacement stays in force for later calls ("This overwrites the pre-generated random numbers");
       `reseed = None` — and, as coded (`if reseed:`), `reseed = 0` — leaves the epoch alone;
     * the files below mock_dir: write_to_disk=True (over)writes galaxies[_rsd]/<tracer>s.dat.
   Layer D : the galaxies returned by run_hod are a function of (epoch in force, tracer parameters, want_rsd) and of nothing
             else in the history; compute_ngal changes nothing; gal_reader(want_rsd) returns the catalogue most recently written
             with that want_rsd, or fails if there is none.
   Layer A : Step below, one action per public call, as coded (including: write_to_disk pops 'Ncent' from the returned dict).
   Mut     : positive controls — "rsdinplace"  a want_rsd=True run shifts the staged positions in place (a later run differs),
                                 "ngalreseeds" compute_ngal disturbs the epoch,
                                 "onefile"     both want_rsd settings write to the same directory.                        *)
EXTENDS Naturals, Sequences, SequencesExt, FiniteSets, TLC, Json, IOUtils

CONSTANTS Mut, MaxCalls

NoSeed == 0
Staged == 0                           \* epoch of the pre-generated randoms
Seeds == {5, 9}
Tracers == {1, 2}                     \* 1 = tracers=None (the constructor's parameters), 2 = an explicit dict with other parameters
NoFile == [ep |-> 0, tr |-> 0, taint |-> 0]

RunCalls == [op : {"run"}, tr : Tracers, rsd : BOOLEAN, rs : {NoSeed} \cup Seeds, wr : BOOLEAN]
NgalCalls == [op : {"ngal"}, tr : Tracers, rsd : {FALSE}, rs : {NoSeed}, wr : {FALSE}]
ReadCalls == [op : {"read"}, tr : {1}, rsd : BOOLEAN, rs : {NoSeed}, wr : {FALSE}]
Calls == RunCalls \cup NgalCalls \cup ReadCalls

InitState == [ep |-> Staged, taint |-> 0, disk |-> [r \in BOOLEAN |-> NoFile]]
Slot(rsd) == IF Mut = "onefile" THEN TRUE ELSE rsd

\* ---- layer A: one step = one public call; returns the new state and the observable result
Step(st, c) ==
    IF c.op = "run" THEN
        LET ep == IF c.rs = NoSeed THEN st.ep ELSE c.rs
            g == [ep |-> ep, tr |-> c.tr, taint |-> st.taint]
            taint2 == IF Mut = "rsdinplace" /\ c.rsd THEN st.taint + 1 ELSE st.taint
            disk2 == IF c.wr THEN [st.disk EXCEPT ![Slot(c.rsd)] = g] ELSE st.disk
        IN [st |-> [ep |-> ep, taint |-> taint2, disk |-> disk2],
            out |-> [kind |-> "mock", ep |-> g.ep, tr |-> g.tr, rsd |-> c.rsd, taint |-> g.taint, ncent |-> ~c.wr]]
    ELSE IF c.op = "ngal" THEN
        [st |-> IF Mut = "ngalreseeds" THEN [st EXCEPT !.ep = 5] ELSE st,
         out |-> [kind |-> "ngal", ep |-> 0, tr |-> c.tr, rsd |-> FALSE, taint |-> 0, ncent |-> FALSE]]
    ELSE
        LET f == st.disk[Slot(c.rsd)] IN
        [st |-> st,
         out |-> IF f = NoFile THEN [kind |-> "error", ep |-> 0, tr |-> 0, rsd |-> c.rsd, taint |-> 0, ncent |-> FALSE]
                 ELSE [kind |-> "table", ep |-> f.ep, tr |-> f.tr, rsd |-> c.rsd, taint |-> f.taint, ncent |-> TRUE]]

\* ---- behaviour level
VARIABLES st, out, hist
vars == <<st, out, hist>>
Init == st = InitState /\ out = [kind |-> "none", ep |-> 0, tr |-> 0, rsd |-> FALSE, taint |-> 0, ncent |-> FALSE] /\ hist = <<>>
Do(c) == LET r == Step(st, c) IN st' = r.st /\ out' = r.out /\ hist' = Append(hist, c)
Next == Len(hist) < MaxCalls /\ \E c \in Calls : Do(c)
Spec == Init /\ [][Next]_vars

\* ---- layer D, stated over the history
RECURSIVE LastSeed(_)
LastSeed(h) == IF h = <<>> THEN Staged
               ELSE LET c == h[Len(h)] IN IF c.op = "run" /\ c.rs # NoSeed THEN c.rs ELSE LastSeed(SubSeq(h, 1, Len(h) - 1))
RECURSIVE LastWrite(_, _)
LastWrite(h, rsd) == IF h = <<>> THEN NoFile
                     ELSE LET c == h[Len(h)]  p == SubSeq(h, 1, Len(h) - 1) IN
                          IF c.op = "run" /\ c.wr /\ c.rsd = rsd THEN [ep |-> LastSeed(h), tr |-> c.tr, taint |-> 0] ELSE LastWrite(p, rsd)
\* the galaxies depend on (epoch, tracers, rsd) only: the epoch is the last non-zero seed of the history, nothing else taints them
HistoryFree == (out.kind = "mock") => (out.ep = LastSeed(hist) /\ out.taint = 0 /\ out.tr = hist[Len(hist)].tr /\ out.rsd = hist[Len(hist)].rsd)
\* reading back gives the last catalogue written with that want_rsd
ReadBack == (out.kind \in {"table", "error"}) =>
               LET w == LastWrite(SubSeq(hist, 1, Len(hist) - 1), out.rsd) IN
               IF w = NoFile THEN out.kind = "error" ELSE out.kind = "table" /\ out.ep = w.ep /\ out.tr = w.tr /\ out.taint = 0
\* compute_ngal and gal_reader leave no trace
Pure == [][(hist' # hist /\ hist'[Len(hist')].op \in {"ngal", "read"}) => st' = st]_vars
EpochSticky == [][(hist' # hist /\ ~(hist'[Len(hist')].op = "run" /\ hist'[Len(hist')].rs # NoSeed)) => st'.ep = st.ep]_vars

\* ---- M2: every call sequence of length <= n over a reduced alphabet, with the expected observable of every call
EmitCalls == { c \in RunCalls : ~c.wr \/ (c.tr = 1 /\ c.rs = NoSeed) \/ (c.tr = 2 /\ c.rs = 5 /\ c.rsd) } \cup { c \in NgalCalls : c.tr = 1 } \cup ReadCalls
RECURSIVE RunSeq(_, _)
RunSeq(s, cs) == IF cs = <<>> THEN <<>> ELSE LET r == Step(s, cs[1]) IN <<r.out>> \o RunSeq(r.st, Tail(cs))
SeqsUpTo(n) == UNION { [1..k -> EmitCalls] : k \in 1..n }
Emit(n) == JsonSerialize(IOEnv.CASES_OUT, SetToSeq({ [calls |-> cs, outs |-> RunSeq(InitState, cs)] : cs \in SeqsUpTo(n) }))

\* ---- M3: traces recorded from the real object (calls with the observed, abstracted results) are behaviours of Step
SameOut(a, b) == a.kind = b.kind /\ (a.kind \in {"mock", "table"} => (a.ep = b.ep /\ a.tr = b.tr /\ a.rsd = b.rsd)) /\ (a.kind = "mock" => a.ncent = b.ncent)
RECURSIVE FirstBad(_, _, _)
FirstBad(s, t, i) == IF i > Len(t) THEN 0
                     ELSE LET r == Step(s, t[i].call) IN IF SameOut(r.out, t[i].out) THEN FirstBad(r.st, t, i + 1) ELSE i
AllAccepted(d) == LET traces == JsonDeserialize(IOEnv.TRACE_FILE)                 \* parsed once
                      firstbad == [k \in 1..Len(traces) |-> FirstBad(InitState, traces[k], 1)]
                      bad == { k \in 1..Len(traces) : firstbad[k] # 0 }
                  IN IF bad = {} THEN TRUE
                     ELSE PrintT(<<"REJECTED", [k \in bad |-> firstbad[k]]>>) /\ FALSE
=========================================================================================
