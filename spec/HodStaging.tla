----------------------------------- MODULE HodStaging -----------------------------------
(* abacusnbody.hod.abacus_hod.AbacusHOD.staging — property C12.

   Slab files hold halos with distinct ids in any order; each per-halo attribute of a halo is a function of its id.
   Staging concatenates the slabs (of the selected chunk), and — if the ids are not already non-decreasing — sorts all
   per-halo arrays by id with one permutation.
   Layer D : after staging, for every row r and EVERY per-halo array X, X[r] is the attribute of the halo whose id is hid[r];
             hid is increasing; every particle's host index points at the halo whose id the particle records.
   Layer A : concatenate, test sortedness, argsort, apply the permutation to the arrays in Permuted(flags).
   Variant "pinned": the original list of permuted arrays (positive control).                                        *)
EXTENDS Naturals, Sequences, SequencesExt, FiniteSets, TLC, Json, IOUtils

CONSTANT Variant
Base == {"hpos", "hvel", "hmass", "hid", "hmultis", "hrandoms", "hveldev", "hsigma3d", "hc", "hrvir"}
AllArrays(ab, shear) == Base \cup (IF ab THEN {"hdeltac", "hfenv"} ELSE {}) \cup (IF shear THEN {"hshear"} ELSE {})
Permuted(ab, shear) == IF Variant = "pinned" THEN AllArrays(ab, shear) \ {"hc", "hrvir"} ELSE AllArrays(ab, shear)

Concat(slabs) == FlattenSeq(slabs)                         \* ids in file order
Sorted(ids) == \A i \in 1..(Len(ids) - 1) : ids[i] <= ids[i + 1]
SortIds(ids) == SetToSortSeq(ToSet(ids), <)
\* A: row r of array X holds the attribute of this id
RowId(slabs, X, ab, shear, r) ==
    LET ids == Concat(slabs) IN
    IF Sorted(ids) \/ X \notin Permuted(ab, shear) THEN ids[r] ELSE SortIds(ids)[r]
Aligned(slabs, ab, shear) ==
    \A X \in AllArrays(ab, shear) : \A r \in 1..Len(Concat(slabs)) : RowId(slabs, X, ab, shear, r) = RowId(slabs, "hid", ab, shear, r)
IdsIncreasing(slabs, ab, shear) == Sorted([r \in 1..Len(Concat(slabs)) |-> RowId(slabs, "hid", ab, shear, r)])

\* arrangements: every ordering of the ids 1..n cut into at most three slabs
Perms(n) == { p \in [1..n -> 1..n] : \A i, j \in 1..n : i # j => p[i] # p[j] }
Cuts(p) == { <<SubSeq(p, 1, a), SubSeq(p, a + 1, b), SubSeq(p, b + 1, Len(p))>> : a \in 0..Len(p), b \in 0..Len(p) } 
Arrangements(n) == UNION { { c \in Cuts(p) : TRUE } : p \in Perms(n) }
ValidCuts(n) == { c \in UNION { { <<SubSeq(p, 1, a), SubSeq(p, a + 1, b), SubSeq(p, b + 1, n)>> : a \in 0..n, b \in 0..n } : p \in Perms(n) } :
                    Len(c[1]) + Len(c[2]) + Len(c[3]) = n }
AllAligned(n) == \A c \in ValidCuts(n) : \A ab \in BOOLEAN : \A sh \in BOOLEAN : Aligned(c, ab, sh) /\ IdsIncreasing(c, ab, sh)
Misaligned(n) == { c \in ValidCuts(n) : \E ab \in BOOLEAN : \E sh \in BOOLEAN : ~Aligned(c, ab, sh) }
Emit(n) == JsonSerialize(IOEnv.CASES_OUT, SetToSeq({ [slabs |-> c, sorted |-> SortIds(Concat(c))] : c \in ValidCuts(n) }))

(* ---- extended coverage: chunking.  n_chunks splits the nfiles slab files into consecutive groups of n_jump = ceil(nfiles/n_chunks);
   chunk c loads slabs [c*n_jump, min((c+1)*n_jump, nfiles)).  For n_chunks <= nfiles the chunks must tile the slabs. ---- *)
CeilDiv(a, b) == (a + b - 1) \div b
ChunkRange(nfiles, nch, c) == LET j == CeilDiv(nfiles, nch)  e == IF (c + 1) * j > nfiles THEN nfiles ELSE (c + 1) * j IN <<c * j, e>>
ChunksTile(nfiles, nch) ==
    /\ UNION { (ChunkRange(nfiles, nch, c)[1] + 1)..ChunkRange(nfiles, nch, c)[2] : c \in 0..(nch - 1) } = 1..nfiles
    /\ \A c1, c2 \in 0..(nch - 1) : c1 # c2 =>
          ((ChunkRange(nfiles, nch, c1)[1] + 1)..ChunkRange(nfiles, nch, c1)[2]) \cap ((ChunkRange(nfiles, nch, c2)[1] + 1)..ChunkRange(nfiles, nch, c2)[2]) = {}
\* some chunk is empty or inverted (start beyond the files) although n_chunks <= nfiles
DegenerateChunks(MaxF) == { <<f, n>> \in (1..MaxF) \X (1..MaxF) : n <= f /\ \E c \in 0..(n - 1) : ChunkRange(f, n, c)[1] >= ChunkRange(f, n, c)[2] }
ChunkTheorem(MaxF) == \A f \in 1..MaxF : \A n \in 1..f : ChunksTile(f, n)
=========================================================================================
