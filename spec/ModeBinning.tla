---------------------------------- MODULE ModeBinning ----------------------------------
(* abacusnbody.analysis.power_spectrum.bin_kmu / bin_kppi — property C08 (and their part of C11).

   A half-complex (rfft) mesh of size n: cells (i, j, k), i, j in 0..n-1, k in 0..n \div 2.
   Wavenumbers are integers in units of dk; squared magnitudes are compared with bin edges
   given in HALF units (edge = H[b]/2 * dk), i.e. 4*|k|^2 against H[b]^2 — all integer arithmetic.
   mu^2 = kz^2/|k|^2 is compared with rational edges <<num, den>> by cross-multiplication.

   Layer D : for every cell its multiplicity in the full mesh and the set of acceptable bins
             (one bin off an edge; either neighbour — or outside — exactly on an edge).
   Layer A : the loops as written (folding of i/j, incremental bin search with continue/break,
             multiplicity) for Variant = "fixed" (current tree) and "pinned" (original commit,
             kept as positive control); every edge-array index is checked (InBounds).        *)
EXTENDS Naturals, Integers, Sequences, SequencesExt, FiniteSets, TLC, Json, IOUtils

(* ---------------- Layer D ---------------- *)
Sgn(i, n) == IF 2 * i <= n THEN i ELSE i - n                 \* signed frequency of index i
Sq(x) == x * x
\* multiplicity of half-mesh cell (.,.,k) in the full mesh: the conjugate (-a,-b,-k) is a different
\* full-mesh mode unless k = 0 or k is the Nyquist plane of an even mesh (those planes hold their
\* own conjugates as separate cells)
Mult(k, n) == IF k = 0 \/ (n % 2 = 0 /\ 2 * k = n) THEN 1 ELSE 2
NB(H) == Len(H) - 1
\* acceptable bins (0 = not counted) for the value v4 against half-unit edges H
BinSet(v4, H) ==
    LET inside == { b \in 1..NB(H) : Sq(H[b]) < v4 /\ v4 < Sq(H[b + 1]) }
        onedge == { e \in 1..Len(H) : Sq(H[e]) = v4 }
    IN IF onedge = {} THEN (IF inside = {} THEN {0} ELSE inside)
       ELSE UNION { ({e - 1, e} \cap (1..NB(H))) \cup (IF e = 1 \/ e = Len(H) THEN {0} ELSE {}) : e \in onedge }
\* mu^2 = k2z / k2 against rational edges ME[m] = <<num, den>> (ME[1] = 0 and the last edge is 1)
MuLess(k2z, k2, e) == k2z * Sq(e[2]) < k2 * Sq(e[1])      \* mu^2 < e^2
MuEq(k2z, k2, e) == k2z * Sq(e[2]) = k2 * Sq(e[1])
MuBinSet(k2z, k2, ME) ==
    IF k2 = 0 THEN {1}                                       \* mu := 0 for the k = 0 mode (first bin is closed at 0)
    ELSE LET nm == Len(ME) - 1
             inside == { m \in 1..nm : MuLess(Sq(ME[m][1]) * k2, Sq(ME[m][2]) * k2z + 0 * k2, <<1, 1>>) /\ FALSE }
         IN { m \in 1..nm :
                \/ (~MuLess(k2z, k2, ME[m]) /\ ~MuEq(k2z, k2, ME[m]) /\ MuLess(k2z, k2, ME[m + 1]))      \* strictly inside
                \/ MuEq(k2z, k2, ME[m]) \/ MuEq(k2z, k2, ME[m + 1]) }                                    \* on an edge: either side
\* is the mode on no edge at all (then its bin is unique)
Unambiguous(S) == Cardinality(S) = 1

CellK2(i, j, k, n) == Sq(Sgn(i, n)) + Sq(Sgn(j, n)) + Sq(k)
CellKp2(i, j, n) == Sq(Sgn(i, n)) + Sq(Sgn(j, n))
Cells(n) == (0..(n - 1)) \X (0..(n - 1)) \X (0..(n \div 2))

\* expected (k, mu) assignment of every cell
KmuTable(n, H, ME) ==
    { [i |-> c[1], j |-> c[2], k |-> c[3], mult |-> Mult(c[3], n),
       kb |-> SetToSortSeq(BinSet(4 * CellK2(c[1], c[2], c[3], n), H), <),
       mb |-> SetToSortSeq(MuBinSet(Sq(c[3]), CellK2(c[1], c[2], c[3], n), ME), <)] : c \in Cells(n) }
KppiTable(n, H, PH) ==
    { [i |-> c[1], j |-> c[2], k |-> c[3], mult |-> Mult(c[3], n),
       kb |-> SetToSortSeq(BinSet(4 * CellKp2(c[1], c[2], n), H), <),
       mb |-> SetToSortSeq(LET s == BinSet(4 * Sq(c[3]), PH) IN IF c[3] = 0 THEN {1} ELSE s, <)] : c \in Cells(n) }
\* full-mesh count: every mode of the full mesh exactly once
FullMeshTheorem(n) == LET S[t \in 0..(n \div 2 + 1)] == IF t = 0 THEN 0 ELSE S[t - 1] + Mult(t - 1, n) IN S[n \div 2 + 1] = n

\* D counts when no mode is ambiguous (used for A = D)
DCountKmu(n, H, ME) ==
    [b \in 1..NB(H) |-> [m \in 1..(Len(ME) - 1) |->
        LET cs == { c \in Cells(n) : BinSet(4 * CellK2(c[1], c[2], c[3], n), H) = {b}
                                     /\ m \in MuBinSet(Sq(c[3]), CellK2(c[1], c[2], c[3], n), ME) }
        IN Cardinality({ c \in cs : Mult(c[3], n) = 1 }) + 2 * Cardinality({ c \in cs : Mult(c[3], n) = 2 })]]
DCountKppi(n, H, PH) ==
    [b \in 1..NB(H) |-> [m \in 1..NB(PH) |->
        LET cs == { c \in Cells(n) : BinSet(4 * CellKp2(c[1], c[2], n), H) = {b}
                                     /\ (IF c[3] = 0 THEN {1} ELSE BinSet(4 * Sq(c[3]), PH)) = {m} }
        IN Cardinality({ c \in cs : Mult(c[3], n) = 1 }) + 2 * Cardinality({ c \in cs : Mult(c[3], n) = 2 })]]
NoAmbiguousKmu(n, H, ME) ==
    \A c \in Cells(n) : /\ Unambiguous(BinSet(4 * CellK2(c[1], c[2], c[3], n), H))
                        /\ (BinSet(4 * CellK2(c[1], c[2], c[3], n), H) # {0} => Unambiguous(MuBinSet(Sq(c[3]), CellK2(c[1], c[2], c[3], n), ME)))
NoAmbiguousKppi(n, H, PH) ==
    \A c \in Cells(n) : /\ Unambiguous(BinSet(4 * CellKp2(c[1], c[2], n), H))
                        /\ (c[3] = 0 \/ Unambiguous(BinSet(4 * Sq(c[3]), PH)))

(* ---------------- Layer A ---------------- *)
Fold(i, n, Variant) == IF Variant = "pinned"
                       THEN (IF i < n \div 2 THEN Sq(i) ELSE Sq(i - n))        \* as originally written
                       ELSE (IF i <= n \div 2 THEN Sq(i) ELSE Sq(i - n))
AMult(k, n, Variant) == IF Variant = "pinned" THEN (IF k = 0 THEN 1 ELSE 2)
                        ELSE (IF k = 0 \/ (n % 2 = 0 /\ k = n \div 2) THEN 1 ELSE 2)
Zero(nb, nm) == [b \in 1..nb |-> [m \in 1..nm |-> 0]]
\* advance a 1-based bin index while v > E(idx + 1); returns <<idx, oob>> (oob: an index past the edge array was read)
RECURSIVE Adv(_, _, _, _)
Adv(idx, Gt(_), top, fuel) == IF idx + 1 > top THEN <<idx, TRUE>>
                              ELSE IF Gt(idx + 1) /\ fuel > 0 THEN Adv(idx + 1, Gt, top, fuel - 1)
                              ELSE <<idx, FALSE>>

\* ---- bin_kmu: the k loop for one (i2, j2); st = [bk, bmu, stop, cnt, oob]
KmuStep(st, k, i2, j2, n, H, ME, Variant) ==
    IF st.stop THEN st
    ELSE LET k2 == i2 + j2 + Sq(k)
             v4 == 4 * k2
         IN IF v4 < Sq(H[1]) THEN st                                             \* continue
            ELSE IF v4 >= Sq(H[Len(H)]) THEN [st EXCEPT !.stop = TRUE]           \* break
            ELSE LET a == Adv(st.bk, LAMBDA e : v4 > Sq(H[e]), Len(H), Len(H))
                     bmu == IF k2 = 0 THEN <<st.bmu, FALSE>>
                            ELSE Adv(st.bmu, LAMBDA e : ~MuLess(Sq(k), k2, ME[e]) /\ ~MuEq(Sq(k), k2, ME[e]), Len(ME), Len(ME))
                 IN IF a[2] \/ bmu[2] THEN [st EXCEPT !.oob = TRUE, !.stop = TRUE]
                    ELSE [st EXCEPT !.bk = a[1], !.bmu = bmu[1],
                                    !.cnt = [st.cnt EXCEPT ![a[1]][bmu[1]] = @ + AMult(k, n, Variant)]]
ACountKmu(n, H, ME, Variant) ==
    LET perIJ(acc, t) ==
          LET i2 == Fold(t \div n, n, Variant)
              j2 == Fold(t % n, n, Variant)
              r == FoldLeft(LAMBDA s, k : KmuStep(s, k, i2, j2, n, H, ME, Variant),
                            [bk |-> 1, bmu |-> 1, stop |-> FALSE, cnt |-> acc.cnt, oob |-> acc.oob],
                            [q \in 1..(n \div 2 + 1) |-> q - 1])
          IN [cnt |-> r.cnt, oob |-> r.oob]
    IN FoldLeft(perIJ, [cnt |-> Zero(NB(H), Len(ME) - 1), oob |-> FALSE], [q \in 1..(n * n) |-> q - 1])

\* ---- bin_kppi: the j loop (continue / break on k_perp) and the k loop (pi bins)
KppiKStep(st, k, n, PH, bk, Variant) ==
    IF st.stop THEN st
    ELSE LET kz4 == 4 * Sq(k) IN
         IF Variant = "pinned"
         THEN LET a == Adv(st.bpi, LAMBDA e : kz4 > Sq(PH[e]), Len(PH), Len(PH)) IN     \* search first ...
              IF a[2] THEN [st EXCEPT !.oob = TRUE, !.stop = TRUE]
              ELSE IF kz4 >= Sq(PH[Len(PH)]) THEN [st EXCEPT !.stop = TRUE, !.bpi = a[1]]   \* ... range check after
              ELSE [st EXCEPT !.bpi = a[1], !.cnt = [st.cnt EXCEPT ![bk][a[1]] = @ + AMult(k, n, Variant)]]
         ELSE IF kz4 >= Sq(PH[Len(PH)]) THEN [st EXCEPT !.stop = TRUE]
              ELSE LET a == Adv(st.bpi, LAMBDA e : kz4 > Sq(PH[e]), Len(PH), Len(PH)) IN
                   IF a[2] THEN [st EXCEPT !.oob = TRUE, !.stop = TRUE]
                   ELSE [st EXCEPT !.bpi = a[1], !.cnt = [st.cnt EXCEPT ![bk][a[1]] = @ + AMult(k, n, Variant)]]
KppiJStep(st, j, i2, n, H, PH, Variant) ==
    IF st.jstop THEN st
    ELSE LET kp4 == 4 * (i2 + Fold(j, n, Variant)) IN
         IF kp4 < Sq(H[1]) THEN st
         ELSE IF kp4 >= Sq(H[Len(H)]) THEN (IF Variant = "pinned" THEN [st EXCEPT !.jstop = TRUE] ELSE st)
         ELSE LET a == Adv(1, LAMBDA e : kp4 > Sq(H[e]), Len(H), Len(H))
                  r == FoldLeft(LAMBDA s, k : KppiKStep(s, k, n, PH, a[1], Variant),
                                [bpi |-> 1, stop |-> FALSE, cnt |-> st.cnt, oob |-> st.oob],
                                [q \in 1..(n \div 2 + 1) |-> q - 1])
              IN [st EXCEPT !.cnt = r.cnt, !.oob = r.oob \/ a[2]]
ACountKppi(n, H, PH, Variant) ==
    LET perI(acc, i) ==
          LET r == FoldLeft(LAMBDA s, j : KppiJStep(s, j, Fold(i, n, Variant), n, H, PH, Variant),
                            [jstop |-> FALSE, cnt |-> acc.cnt, oob |-> acc.oob], [q \in 1..n |-> q - 1])
          IN [cnt |-> r.cnt, oob |-> r.oob]
    IN FoldLeft(perI, [cnt |-> Zero(NB(H), NB(PH)), oob |-> FALSE], [q \in 1..n |-> q - 1])

\* per-configuration verdicts used by the MC modules
KmuOK(n, H, ME, Variant) == LET a == ACountKmu(n, H, ME, Variant) IN
                            ~a.oob /\ (NoAmbiguousKmu(n, H, ME) => a.cnt = DCountKmu(n, H, ME))
KppiOK(n, H, PH, Variant) == LET a == ACountKppi(n, H, PH, Variant) IN
                             ~a.oob /\ (NoAmbiguousKppi(n, H, PH) => a.cnt = DCountKppi(n, H, PH))
========================================================================================
