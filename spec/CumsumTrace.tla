---------------------------- MODULE CumsumTrace ----------------------------
(* Layer T for Cumsum: element-access logs recorded from the real source of
   abacusnbody.util.cumsum (py_func on recording proxies) must be behaviours of layer A. *)
EXTENDS Cumsum, TLCExt

MCVals == {<<0, 0>>, <<0, 1>>, <<0, 2>>, <<1, 0>>}
MCOffs == {<<0, 0>>, <<0, 1>>, <<1, 0>>}

Traces == JsonDeserialize(IOEnv.TRACE_FILE)

VARIABLE tid
TraceInit == /\ tid \in 1..Len(Traces)
             /\ c = Traces[tid].case
             /\ pc = "check"
             /\ out = [j \in 1..c.outlen |-> None]
             /\ total = <<0, 0>> /\ i = 0 /\ log = <<>> /\ oob = FALSE /\ ret = None
TraceNext == ~oob /\ Next /\ UNCHANGED tid
TraceSpec == TraceInit /\ [][TraceNext]_<<vars, tid>>

TraceMatches ==
    /\ (pc = "raised") => (Traces[tid].outcome = "raised" /\ Len(Traces[tid].log) = 0)
    /\ (pc = "done" /\ ~oob) => (Traces[tid].outcome = "done" /\ log = Traces[tid].log)
    /\ oob => (Traces[tid].outcome = "oob" /\ log = Traces[tid].log)
=============================================================================
