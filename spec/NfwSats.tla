------------------------------------ MODULE NfwSats ------------------------------------
(* abacusnbody.hod.GRAND_HOD.gen_sats_nfw / compute_fast_NFW — extended coverage (hosted by C09; the NFW path is outside C09's statement).

   Satellites on an NFW profile: halo h receives num_sat[h] satellites (Poisson draws — not modelled, any counts);
   compute_fast_NFW repeats every per-halo array num_sat times, splits the satellite rows into Nthread blocks at
   rint(linspace(0, total, Nthread + 1)) and places row i at   host + unit[i] * etaVir * Rvir,
       etaVir = NFW_draw[ind] / c * nfw_rescale     (draws > c are re-drawn, so NFW_draw[ind] / c is in (0, 1]).
   Radii are integers here: draw in 1..C (units of Rvir / C), rescale in units of 1.

   Layer D : every satellite row belongs to exactly one host, hosts appear in table order with their counts, each row is written by
             exactly one thread block, and the satellite lies on the profile: 0 < radius <= rescale_T * Rvir for ITS tracer's parameters.
   Layer A : as coded — exp_frac / exp_scale / nfw_rescale are read from the ELG dictionary inside `if want_ELG:` and then used for
             all three tracers; when ELG is not requested the compiled kernel reads them uninitialised (zero).
   Variant : "coded" (above) | "intended" (profile parameters default to exp_frac = 0, nfw_rescale = 1 when ELG is absent).        *)
EXTENDS Naturals, Integers, Sequences, SequencesExt, FiniteSets, TLC, Json, IOUtils

CONSTANT Variant

RintDiv(a, b) == LET q == a \div b  r == a % b IN
                 IF 2 * r < b THEN q ELSE IF 2 * r > b THEN q + 1 ELSE IF q % 2 = 0 THEN q ELSE q + 1
Sum(f, S) == LET RECURSIVE Acc(_)
                 Acc(T) == IF T = {} THEN 0 ELSE LET x == CHOOSE y \in T : TRUE IN f[x] + Acc(T \ {x})
             IN Acc(S)

\* ---- np.repeat: the host of satellite row i (1-based) for counts ns (sequence over halos)
Total(ns) == Sum(ns, DOMAIN ns)
RowHost(ns, i) == CHOOSE h \in DOMAIN ns : Sum(ns, 1..(h - 1)) < i /\ i <= Sum(ns, 1..h)
\* ---- thread blocks of compute_fast_NFW
BStart(tot, T, t) == RintDiv(tot * t, T)
Writers(tot, T, i) == { t \in 0..(T - 1) : BStart(tot, T, t) < i /\ i <= BStart(tot, T, t + 1) }
BlocksOK(tot, T) == \A i \in 1..tot : Cardinality(Writers(tot, T, i)) = 1
RepeatOK(ns) == /\ \A i \in 1..Total(ns) : ns[RowHost(ns, i)] > 0
                /\ \A i, j \in 1..Total(ns) : i <= j => RowHost(ns, i) <= RowHost(ns, j)
                /\ \A h \in DOMAIN ns : Cardinality({ i \in 1..Total(ns) : RowHost(ns, i) = h }) = ns[h]

\* ---- the profile parameters a tracer's satellites are placed with (layer A) and should be placed with (layer D)
Rescale(wantE, resE) == IF wantE THEN resE ELSE IF Variant = "coded" THEN 0 ELSE 1
Radius(draw, wantE, resE) == draw * Rescale(wantE, resE)              \* in units of Rvir / C, draw in 1..C
OnProfile(C, wantE, resE) == \A draw \in 1..C : Radius(draw, wantE, resE) > 0 /\ Radius(draw, wantE, resE) <= C * (IF wantE THEN resE ELSE 1)
\* tracer subsets for which every satellite is on its profile
Collapsed(C) == { wantE \in BOOLEAN : \E resE \in 1..2 : ~OnProfile(C, wantE, resE) }

StructureTheorem(MaxH, MaxN, MaxT) ==
    /\ \A H \in 0..MaxH : \A ns \in [1..H -> 0..MaxN] : RepeatOK(ns)
    /\ \A tot \in 0..(MaxH * MaxN) : \A T \in 1..MaxT : BlocksOK(tot, T)

\* ---- M2: count vectors with the expected host of every satellite row
Emit(MaxH, MaxN) == JsonSerialize(IOEnv.CASES_OUT, SetToSeq({ [ns |-> ns, hosts |-> [i \in 1..Total(ns) |-> RowHost(ns, i)]] :
                                                                 ns \in UNION { [1..H -> 0..MaxN] : H \in 0..MaxH } }))
=========================================================================================
