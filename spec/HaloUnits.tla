------------------------------------ MODULE HaloUnits ------------------------------------
(* abacusnbody.data.compaso_halo_catalog halo-column loaders — property C05.

   Layer D only: for every halo column its unit KIND and, from it, the exact rational value the loader must
   return for given stored (raw) values, BoxSize, VelZSpace_to_kms and the convert_units option.
     Length        value = raw * Box
     Velocity      value = raw * Vel
     RatioLen      value = i16/32000 * r100 * Box              (ratios to r100: r10..r98, rvcirc_max, sigmar[3])
     RatioVel      value = i16/32000 * sigmav3d * Vel          (sigmavMin/Maj/rad/tan: velocity dispersions)
     RatioBox      value = i16/32000 * Box                     (sigman[3]: ratio to the unit box)
     MidDisp       value^2 = (sigmav3d*Vel)^2 - Maj^2 - Min^2  (sigmavMid; same units as sigmav3d)
     Plain         value = raw                                  (integers, densities, eigenvectors, cleaning and light-cone columns)
   With conversion off, Box = Vel = 1.  Rationals are pairs <<num, den>> (den > 0); raw floats are n/RD. *)
EXTENDS Naturals, Integers, Sequences, SequencesExt, FiniteSets, TLC, Json, IOUtils

Coms == {"_com", "_L2com"}
Cat(a, b) == a \o b
LengthStems == {"x", "r100"}
VelocityStems == {"v", "sigmav3d", "meanSpeed", "sigmav3d_r50", "meanSpeed_r50", "vcirc_max"}
RatioLenStems == {"r10", "r25", "r33", "r50", "r67", "r75", "r90", "r95", "r98", "rvcirc_max", "sigmar"}
RatioVelStems == {"sigmavMin", "sigmavMaj", "sigmavrad", "sigmavtan"}
EigStems == {"sigmar_eigenvecsMin", "sigmar_eigenvecsMid", "sigmar_eigenvecsMaj", "sigmav_eigenvecsMin", "sigmav_eigenvecsMid",
             "sigmav_eigenvecsMaj", "sigman_eigenvecsMin", "sigman_eigenvecsMid", "sigman_eigenvecsMaj"}
LengthCols == { Cat(s, c) : s \in LengthStems, c \in Coms } \cup {"SO_central_particle", "SO_radius", "SO_L2max_central_particle", "SO_L2max_radius"}
VelocityCols == { Cat(s, c) : s \in VelocityStems, c \in Coms }
RatioLenCols == { Cat(s, c) : s \in RatioLenStems, c \in Coms }
RatioVelCols == { Cat(s, c) : s \in RatioVelStems, c \in Coms }
RatioBoxCols == { Cat("sigman", c) : c \in Coms }
MidCols == { Cat("sigmavMid", c) : c \in Coms }
PlainCols == {"id", "npstartA", "npstartB", "npoutA", "npoutB", "ntaggedA", "ntaggedB", "N", "L2_N", "L0_N",
              "SO_central_density", "SO_L2max_central_density"} \cup { Cat(s, c) : s \in EigStems, c \in Coms }
CleanPlainCols == {"N_total", "N_merge", "haloindex", "is_merged_to", "N_mainprog", "vcirc_max_L2com_mainprog", "sigmav3d_L2com_mainprog",
                   "haloindex_mainprog", "v_L2com_mainprog"}
LcPlainCols == {"N_interp", "index_halo", "pos_avg", "vel_avg", "redshift_interp", "pos_interp", "vel_interp"}
AllCols == LengthCols \cup VelocityCols \cup RatioLenCols \cup RatioVelCols \cup RatioBoxCols \cup MidCols \cup PlainCols
KindOf(c) == IF c \in LengthCols THEN "Length" ELSE IF c \in VelocityCols THEN "Velocity" ELSE IF c \in RatioLenCols THEN "RatioLen"
             ELSE IF c \in RatioVelCols THEN "RatioVel" ELSE IF c \in RatioBoxCols THEN "RatioBox" ELSE IF c \in MidCols THEN "MidDisp" ELSE "Plain"
\* the table must classify every column exactly once
KindsDisjoint == Cardinality(AllCols) = Cardinality(LengthCols) + Cardinality(VelocityCols) + Cardinality(RatioLenCols) + Cardinality(RatioVelCols)
                                        + Cardinality(RatioBoxCols) + Cardinality(MidCols) + Cardinality(PlainCols)

RD == 64                                     \* raw floats are multiples of 1/64
Scale(kind, box, vel) == IF kind \in {"Length", "RatioLen", "RatioBox"} THEN box ELSE IF kind \in {"Velocity", "RatioVel", "MidDisp"} THEN vel ELSE 1
\* value as <<num, den>> for one stored sample: raw (numerator over RD), i16, ref (r100 or sigmav3d numerator over RD)
Value(kind, raw, i16, ref, box, vel) ==
    CASE kind = "Length" -> <<raw * box, RD>>
      [] kind = "Velocity" -> <<raw * vel, RD>>
      [] kind = "RatioLen" -> <<i16 * ref * box, 32000 * RD>>
      [] kind = "RatioVel" -> <<i16 * ref * vel, 32000 * RD>>
      [] kind = "RatioBox" -> <<i16 * box, 32000>>
      [] OTHER -> <<raw, RD>>
\* square of sigmavMid as a rational: (s*vel/RD)^2 - (mn*s*vel/(32000 RD))^2 - (mx*s*vel/(32000 RD))^2, in units of (vel/(32000 RD))^2
MidSquaredUnits(mn, mx, s, K) == s * s * (K * K - mn * mn - mx * mx)       \* x (vel/(K RD))^2, K = 32000

(* theorems on D *)
Samples16 == {-32768, -32000, -1, 0, 1, 16000, 32000, 32767}
RefSamples == {0, 1, 5, 8}
PrincipalSamples == {2, 3, 4, 10000, 12000, 20000, 24000, 25000}       \* (min, max) ratio pairs with min^2 + max^2 <= 32000^2
BoxVel == { <<1, 1>>, <<2, 3>>, <<5, 7>>, <<7, 1100>> }
\* on/off loads differ by exactly the unit factor
FactorTheorem == \A k \in {"Length", "Velocity", "RatioLen", "RatioVel", "RatioBox", "Plain"} : \A bv \in BoxVel :
                   \A i \in Samples16 : \A r \in RefSamples :
                      LET on == Value(k, r, i, r, bv[1], bv[2])  off == Value(k, r, i, r, 1, 1) IN
                      on[2] = off[2] /\ on[1] = Scale(k, bv[1], bv[2]) * off[1]      \* same denominator by construction
\* the three principal dispersions are velocities and their squares sum to sigmav3d^2 (in (vel/(32000 RD))^2 units)
\* (checked with K = 32 to stay inside TLC's 32-bit integers; the identity is algebraic in K)
PrincipalTheorem == \A mn \in {0, 1, 12, 16} : \A mx \in {0, 2, 16, 20} : \A s \in RefSamples :
                       MidSquaredUnits(mn, mx, s, 32) + (mn * s) * (mn * s) + (mx * s) * (mx * s) = (32 * s) * (32 * s)

Emit(x) == JsonSerialize(IOEnv.CASES_OUT,
   [kinds |-> SetToSeq({ <<c, KindOf(c)>> : c \in AllCols }),
    clean_plain |-> SetToSeq(CleanPlainCols), lc_plain |-> SetToSeq(LcPlainCols),
    values |-> SetToSeq({ [kind |-> k, box |-> bv[1], vel |-> bv[2], raw |-> r, i16 |-> i, ref |-> rf, val |-> Value(k, r, i, rf, bv[1], bv[2])] :
                 k \in {"Length", "Velocity", "RatioLen", "RatioVel", "RatioBox", "Plain"}, bv \in BoxVel \cup {<<1, 1>>},
                 r \in {-8, -1, 0, 1, 3, 5, 8}, i \in Samples16 \cup PrincipalSamples, rf \in RefSamples })])
==========================================================================================
