----------------------------------- MODULE SubsampleSpec -----------------------------------
(* abacusnbody.data.compaso_halo_catalog.CompaSOHaloCatalog._setup_load_subsamples — specification growth beyond the listed
   properties (it fixes the "loader options" axis that C01 quantifies over): which subsamples (A, B) and which particle columns
   (pos, vel, pid) a `subsamples=` argument selects.  A dict entry is "absent", "T" (True) or "F" (False).
   Decision table (layer D), as documented: `rv` is shorthand for pos and vel and may not be combined with either; an explicit
   True loads, an explicit False does not; columns requested without A/B mean subsample A; A/B requested without any column
   means pos and vel (each unless explicitly False), and rv if both were explicitly switched off.                          *)
EXTENDS Naturals, Sequences, SequencesExt, FiniteSets, TLC, Json, IOUtils

Tri == {"absent", "T", "F"}
Specs == [A : Tri, B : Tri, rv : Tri, pos : Tri, vel : Tri, pid : Tri]
On(x) == x = "T"
Outcome(s) ==
    IF s.rv # "absent" /\ (s.pos # "absent" \/ s.vel # "absent") THEN [error |-> TRUE, AB |-> {}, cols |-> {}]
    ELSE LET ab0 == (IF On(s.A) THEN {"A"} ELSE {}) \cup (IF On(s.B) THEN {"B"} ELSE {})
             c0 == (IF On(s.pid) THEN {"pid"} ELSE {}) \cup (IF On(s.pos) THEN {"pos"} ELSE {}) \cup (IF On(s.vel) THEN {"vel"} ELSE {})
                   \cup (IF On(s.rv) THEN {"pos", "vel"} ELSE {})
             ab1 == IF c0 # {} /\ ab0 = {} THEN {"A"} ELSE ab0
             c1 == IF c0 = {} /\ ab0 # {}
                   THEN LET d == (IF s.pos # "F" THEN {"pos"} ELSE {}) \cup (IF s.vel # "F" THEN {"vel"} ELSE {}) IN IF d = {} THEN {"pos", "vel"} ELSE d
                   ELSE c0
         IN [error |-> FALSE, AB |-> ab1, cols |-> c1]
\* sanity: a column is never loaded without a subsample, nor a subsample without a column
Consistent == \A s \in Specs : LET o == Outcome(s) IN ~o.error => ((o.AB = {}) = (o.cols = {}))
ExplicitRespected == \A s \in Specs : LET o == Outcome(s) IN ~o.error =>
                        /\ (On(s.pid) => "pid" \in o.cols) /\ (On(s.pos) => "pos" \in o.cols) /\ (On(s.vel) => "vel" \in o.cols)
                        /\ (On(s.A) => "A" \in o.AB) /\ (On(s.B) => "B" \in o.AB) /\ (s.pid # "T" => "pid" \notin o.cols)
Emit(x) == JsonSerialize(IOEnv.CASES_OUT, SetToSeq({ [spec |-> s, out |-> [error |-> Outcome(s).error, AB |-> SetToSeq(Outcome(s).AB), cols |-> SetToSeq(Outcome(s).cols)]] : s \in Specs }))
============================================================================================
