------------------------------------ MODULE CatalogPaths ------------------------------------
(* abacusnbody.data.compaso_halo_catalog._setup_file_paths — where the cleaning files of a catalog are looked up
   (specification growth; the upstream tests test_cleaning_layouts[1-4] cannot run offline).
   A catalog directory is <base>/<Sim>/halos/<z>; the cleaning directory is the first ancestor's child named "cleaning";
   below it the path of the simulation relative to that ancestor is repeated, and the files are either in
   cleaned_halo_info/ and cleaned_rvpid/ sub-directories or directly in that directory.
   Paths are sequences of components.                                                                         *)
EXTENDS Naturals, Sequences, SequencesExt, FiniteSets, TLC, Json, IOUtils

Layouts == {"L1", "L2", "L3", "L4"}
\* components of the catalog directory and of the cleaning root, per documented layout
GroupDir(l) == IF l = "L2" THEN <<"small", "Sim", "halos", "z">> ELSE <<"Sim", "halos", "z">>
CleanRoot(l) == IF l \in {"L1", "L2"} THEN <<"cleaning">> ELSE <<"Sim", "cleaning">>
\* relative path of the simulation (without "halos") from the parent of the cleaning root
RelPath(l) == IF l = "L1" THEN <<"Sim", "z">> ELSE IF l = "L2" THEN <<"small", "Sim", "z">> ELSE <<"z">>
Nested(l) == l # "L4"
InfoDir(l) == CleanRoot(l) \o RelPath(l) \o (IF Nested(l) THEN <<"cleaned_halo_info">> ELSE <<>>)
RvpidDir(l) == CleanRoot(l) \o RelPath(l) \o (IF Nested(l) THEN <<"cleaned_rvpid">> ELSE <<>>)
\* the cleaning root is an ancestor-sibling of the catalog: nearest ancestor of GroupDir having a "cleaning" child
NearestOK == \A l \in Layouts : LET g == GroupDir(l)  c == CleanRoot(l) IN
                SubSeq(c, 1, Len(c) - 1) = SubSeq(g, 1, Len(c) - 1) /\ Len(c) - 1 < Len(g)
Emit(x) == JsonSerialize(IOEnv.CASES_OUT, SetToSeq({ [layout |-> l, group |-> GroupDir(l), info |-> InfoDir(l), rvpid |-> RvpidDir(l)] : l \in Layouts }))
=============================================================================================
