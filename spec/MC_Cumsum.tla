---------------------------- MODULE MC_Cumsum ----------------------------
EXTENDS Cumsum
MCVals == {<<0, 0>>, <<0, 1>>, <<0, 2>>, <<1, 0>>}
MCOffs == {<<0, 0>>, <<0, 1>>, <<1, 0>>}
ASSUME DTheorems
ASSUME ("CASES_OUT" \in DOMAIN IOEnv) => EmitCases
==========================================================================
