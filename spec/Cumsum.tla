---------------------------------- MODULE Cumsum ----------------------------------
(* abacusnbody.util.cumsum — property C19 (and the cumsum part of C11).
   Layer D : what the helper must produce (numpy.cumsum semantics with initial/final/offset).
   Layer A : the loop as written in util.py, one action per statement, with every array
             access checked against the array bounds (InBounds) and the final state
             compared with D (RefinesD).
   Values are pairs <<k, s>> standing for k*U + s, U a large unit chosen by the harness
   (2^32-1 for uint32 -> uint64), so that totals above 2^32 are expressible in TLC's ints. *)
EXTENDS Naturals, Integers, Sequences, SequencesExt, FiniteSets, TLC, Json, IOUtils

CONSTANTS MaxN,        \* longest input explored
          Vals,        \* set of <<k,s>> element values
          Offs,        \* set of <<k,s>> offsets
          Slack,       \* output lengths explored: 0 .. N+Slack
          GuardEmpty   \* TRUE: code returns early on empty input (tree after the fix);
                       \* FALSE: pinned code (positive control: TLC must find the OOB access)

Add(a, b) == <<a[1] + b[1], a[2] + b[2]>>
B2N(b) == IF b THEN 1 ELSE 0

RECURSIVE SeqsUpTo(_)
SeqsUpTo(n) == IF n = 0 THEN {<<>>}
               ELSE LET S == SeqsUpTo(n - 1) IN S \cup {Append(s, v) : s \in {t \in S : Len(t) = n - 1}, v \in Vals}

-----------------------------------------------------------------------------------
(* Layer D *)
Prefix(arr, off, i) ==            \* off + arr[1] + ... + arr[i]   (i = 0 gives off)
    LET F[j \in 0..i] == IF j = 0 THEN off ELSE Add(F[j - 1], arr[j]) IN F[i]

Total(arr, off) == Prefix(arr, off, Len(arr))

NOut(n, init, fin) == n - 1 + B2N(init) + B2N(fin)

\* the selected partial sums: indices lo..hi of the sequence P(0)=off, P(1), ..., P(N)
Selected(arr, init, fin, off) ==
    LET n  == Len(arr)
        lo == IF init THEN 0 ELSE 1
        hi == IF fin THEN n ELSE n - 1
    IN  IF hi < lo THEN <<>> ELSE [j \in 1..(hi - lo + 1) |-> Prefix(arr, off, lo + j - 1)]

Accepts(arr, init, fin, outlen) == outlen = NOut(Len(arr), init, fin)

Cases == { [arr |-> a, init |-> i, fin |-> f, off |-> o, outlen |-> L] :
             a \in SeqsUpTo(MaxN), i \in BOOLEAN, f \in BOOLEAN, o \in Offs, L \in 0..(MaxN + Slack) }
         
Expect(c) == IF Accepts(c.arr, c.init, c.fin, c.outlen) /\ c.outlen <= Len(c.arr) + Slack
             THEN [case |-> c, raises |-> FALSE, out |-> Selected(c.arr, c.init, c.fin, c.off), total |-> Total(c.arr, c.off)]
             ELSE [case |-> c, raises |-> TRUE, out |-> <<>>, total |-> <<0, 0>>]

ValidCases == {c \in Cases : c.outlen <= Len(c.arr) + Slack}

\* D-level theorems (checked by TLC as ASSUMEs over the whole case set)
DTheorems ==
    \A c \in ValidCases :
       LET s == Selected(c.arr, c.init, c.fin, c.off) IN
       /\ (Len(c.arr) = 0 => (s = IF c.init /\ c.fin THEN <<c.off>> ELSE <<>>))
       /\ Len(s) = (IF NOut(Len(c.arr), c.init, c.fin) < 0 THEN 0 ELSE NOut(Len(c.arr), c.init, c.fin))
       /\ (c.init /\ Len(s) > 0 => s[1] = c.off)
       /\ (c.fin /\ Len(c.arr) > 0 => s[Len(s)] = Total(c.arr, c.off))

\* M2: write the cases with their expected results for the harness
EmitCases == JsonSerialize(IOEnv.CASES_OUT, SetToSeq({Expect(c) : c \in ValidCases}))

-----------------------------------------------------------------------------------
(* Layer A : the code.  Python indices; an index x on an array of length L is legal iff -L <= x < L *)
VARIABLES pc, c, out, total, i, log, oob, ret

vars == <<pc, c, out, total, i, log, oob, ret>>

Legal(x, L) == x >= -L /\ x < L
Pos(x, L) == IF x >= 0 THEN x + 1 ELSE L + x + 1        \* 1-based TLA position

None == <<-1, -1>>

Init == /\ c \in ValidCases
        /\ pc = "check"
        /\ out = [j \in 1..c.outlen |-> None]
        /\ total = <<0, 0>> /\ i = 0 /\ log = <<>> /\ oob = FALSE /\ ret = None

N == Len(c.arr)

Check == /\ pc = "check"
         /\ IF Len(out) # N - 1 + B2N(c.init) + B2N(c.fin)
            THEN pc' = "raised" /\ UNCHANGED total
            ELSE /\ total' = c.off
                 /\ pc' = IF GuardEmpty /\ N = 0 THEN "empty" ELSE "initial"
         /\ UNCHANGED <<c, out, i, log, oob, ret>>

\* fixed tree: if N == 0: (if initial and final: out[0] = total); return total
Empty == /\ pc = "empty"
         /\ IF c.init /\ c.fin
            THEN /\ log' = Append(log, <<"W", "out", 0>>)
                 /\ IF Legal(0, Len(out)) THEN out' = [out EXCEPT ![1] = total] /\ UNCHANGED oob
                                          ELSE oob' = TRUE /\ UNCHANGED out
            ELSE UNCHANGED <<out, log, oob>>
         /\ ret' = total /\ pc' = "done"
         /\ UNCHANGED <<c, total, i>>

Initial == /\ pc = "initial"
           /\ IF c.init
              THEN /\ log' = Append(log, <<"W", "out", 0>>)
                   /\ IF Legal(0, Len(out)) THEN out' = [out EXCEPT ![1] = total] /\ UNCHANGED oob
                                            ELSE oob' = TRUE /\ UNCHANGED out
              ELSE UNCHANGED <<out, log, oob>>
           /\ pc' = "loop" /\ i' = 0
           /\ UNCHANGED <<c, total, ret>>

Loop == /\ pc = "loop"
        /\ IF i < N - 1
           THEN LET w == i + B2N(c.init) IN
                /\ log' = log \o << <<"R", "arr", i>>, <<"W", "out", w>> >>
                /\ IF Legal(i, N) /\ Legal(w, Len(out))
                   THEN /\ total' = Add(total, c.arr[Pos(i, N)])
                        /\ out' = [out EXCEPT ![Pos(w, Len(out))] = Add(total, c.arr[Pos(i, N)])]
                        /\ UNCHANGED oob
                   ELSE oob' = TRUE /\ UNCHANGED <<total, out>>
                /\ i' = i + 1 /\ pc' = "loop"
           ELSE pc' = "last" /\ UNCHANGED <<log, total, out, oob, i>>
        /\ UNCHANGED <<c, ret>>

LastAdd == /\ pc = "last"
           /\ log' = Append(log, <<"R", "arr", -1>>)
           /\ IF Legal(-1, N)
              THEN total' = Add(total, c.arr[Pos(-1, N)]) /\ UNCHANGED oob
              ELSE oob' = TRUE /\ UNCHANGED total
           /\ pc' = "final"
           /\ UNCHANGED <<c, out, i, ret>>

Final == /\ pc = "final"
         /\ IF c.fin
            THEN /\ log' = Append(log, <<"W", "out", -1>>)
                 /\ IF Legal(-1, Len(out)) THEN out' = [out EXCEPT ![Pos(-1, Len(out))] = total] /\ UNCHANGED oob
                                           ELSE oob' = TRUE /\ UNCHANGED out
            ELSE UNCHANGED <<out, log, oob>>
         /\ ret' = total /\ pc' = "done"
         /\ UNCHANGED <<c, total, i>>

Next == Check \/ Empty \/ Initial \/ Loop \/ LastAdd \/ Final

Spec == Init /\ [][Next]_vars

InBounds == ~oob                                                     \* C11 / C19 "nothing outside"
RejectsIff == (pc = "raised") => ~Accepts(c.arr, c.init, c.fin, c.outlen)
AcceptsIff == (pc \notin {"check", "raised"}) => Accepts(c.arr, c.init, c.fin, c.outlen)
RefinesD == (pc = "done") => /\ out = Selected(c.arr, c.init, c.fin, c.off)
                             /\ ret = Total(c.arr, c.off)
\* every output cell is written exactly once, every input cell read exactly once
WriteOnce == (pc = "done" /\ ~oob) =>
               /\ \A p \in 1..Len(out) : Cardinality({k \in 1..Len(log) : log[k][1] = "W" /\ Pos(log[k][3], Len(out)) = p}) = 1
               /\ \A p \in 1..N : Cardinality({k \in 1..Len(log) : log[k][1] = "R" /\ Pos(log[k][3], N) = p}) = 1
===================================================================================
