---------------------------------- MODULE MassAssign ----------------------------------
(* abacusnbody.analysis.tsc._tsc_scatter / tsc_parallel and abacusnbody.analysis.cic.cic_serial —
   property C06 (and the mass-assignment part of C11).

   One axis with g cells; positions are lattice integers m (m/Q cells from the origin), the
   sub-cell offset o is in the same units.  Cell c is centred on c*Q.  The 3-D deposit is the
   outer product of three 1-D deposits (separability is part of layer D; the harness forms the
   product).  Weights are scaled to integers: TSC by 4Q^2, CIC by Q.

   Layer D : the kernel as a function of periodic distance (sum over periodic images).
   Layer A : the code: p = m + o, c = round(p) (either way on a tie), three weights from
             d = c - p, indices c-1, c, c+1 through rightwrap() and Python negative-index wrap.
   Theorems (checked by TLC over the whole lattice): A = D, InBounds, conservation,
   non-negativity, roll-equivariance under whole-cell shifts and across the periodic boundary. *)
EXTENDS Naturals, Integers, Sequences, SequencesExt, FiniteSets, TLC, Json, IOUtils

CONSTANT Q          \* lattice points per cell (even)

Abs(x) == IF x < 0 THEN -x ELSE x
(* ---------------- Layer D ---------------- *)
\* TSC kernel x 4Q^2 at signed lattice distance d
KTsc(d) == LET a == Abs(d) IN
           IF 2 * a <= Q THEN 3 * Q * Q - 4 * a * a
           ELSE IF 2 * a <= 3 * Q THEN ((3 * Q - 2 * a) * (3 * Q - 2 * a)) \div 2
           ELSE 0
\* CIC kernel x Q
KCic(d) == LET a == Abs(d) IN IF a <= Q THEN Q - a ELSE 0
K(kind, d) == IF kind = "TSC" THEN KTsc(d) ELSE KCic(d)
Scale(kind) == IF kind = "TSC" THEN 4 * Q * Q ELSE Q
\* deposit of a unit particle at lattice position p (already including the offset) onto cell c of g,
\* summed over periodic images (needed for g < 3)
D1(kind, p, g) == [c \in 0..(g - 1) |->
                     LET S[k \in 0..8] == IF k = 0 THEN 0 ELSE S[k - 1] + K(kind, p - (c + (k - 5) * g) * Q) IN S[8]]

(* ---------------- Layer A ---------------- *)
Rounds(p) == LET q == p \div Q  r == p % Q IN
             IF 2 * r < Q THEN {q} ELSE IF 2 * r > Q THEN {q + 1} ELSE {q, q + 1}
RightWrap(x, g) == IF x >= g THEN x - g ELSE x
Legal(i, g) == i >= -g /\ i < g
PyIndex(i, g) == IF i < 0 THEN i + g ELSE i
\* the three (index, weight) updates of one axis, for nearest cell c
TscUpdates(p, c, g) == LET d == c * Q - p IN
    << <<RightWrap(c - 1, g), ((Q + 2 * d) * (Q + 2 * d)) \div 2>>,
       <<RightWrap(c, g), 3 * Q * Q - 4 * d * d>>,
       <<RightWrap(c + 1, g), ((Q - 2 * d) * (Q - 2 * d)) \div 2>> >>
CicUpdates(p, c, g) == LET d == c * Q - p IN
    << <<RightWrap(c - 1, g), IF d > 0 THEN d ELSE 0>>,
       <<RightWrap(c, g), Q - Abs(d)>>,
       <<RightWrap(c + 1, g), IF d > 0 THEN 0 ELSE -d>> >>
Updates(kind, p, c, g) == IF kind = "TSC" THEN TscUpdates(p, c, g) ELSE CicUpdates(p, c, g)
InBoundsAt(kind, p, c, g) == \A k \in 1..3 : Legal(Updates(kind, p, c, g)[k][1], g)
A1(kind, p, c, g) == LET u == Updates(kind, p, c, g) IN
    [cell \in 0..(g - 1) |->
        (IF PyIndex(u[1][1], g) = cell THEN u[1][2] ELSE 0) + (IF PyIndex(u[2][1], g) = cell THEN u[2][2] ELSE 0)
      + (IF PyIndex(u[3][1], g) = cell THEN u[3][2] ELSE 0)]

(* ---------------- theorems over a lattice ---------------- *)
\* the domain the routines document: positions in [0, BoxSize] (the upper end is what an in-place
\* float32 wrap can produce), offsets within one cell
Positions(g) == 0..(g * Q)
SumOf(f, g) == LET S[c \in -1..(g - 1)] == IF c = -1 THEN 0 ELSE S[c - 1] + f[c] IN S[g - 1]
AEqualsD(kind, G, Offsets) ==
    \A g \in G : \A o \in Offsets : \A m \in Positions(g) : \A c \in Rounds(m + o) :
        InBoundsAt(kind, m + o, c, g) => A1(kind, m + o, c, g) = D1(kind, m + o, g)
OutOfBounds(kind, G, Offsets) ==
    { <<g, o, m>> \in G \X Offsets \X (0..(8 * Q)) : m \in Positions(g) /\ \E c \in Rounds(m + o) : ~InBoundsAt(kind, m + o, c, g) }
Conservation(kind, G, Offsets) ==
    \A g \in G : \A o \in Offsets : \A m \in Positions(g) :
        /\ SumOf(D1(kind, m + o, g), g) = Scale(kind)
        /\ \A c \in 0..(g - 1) : D1(kind, m + o, g)[c] >= 0
RollEquivariance(kind, G, Offsets) ==
    \A g \in G : \A o \in Offsets : \A m \in Positions(g) : \A s \in 1..g :
        \* shifting by s whole cells (wrapping) rolls the deposit by s cells
        \A c \in 0..(g - 1) : D1(kind, ((m + s * Q) % (g * Q)) + o, g)[(c + s) % g] = D1(kind, m + o, g)[c]

\* M2 table: the 1-D deposits the harness multiplies together
Table(kind, G, Offsets) ==
    { [kind |-> kind, g |-> g, o |-> o, m |-> m, cells |-> [c \in 1..g |-> D1(kind, m + o, g)[c - 1]]] :
        <<g, o, m>> \in { t \in G \X Offsets \X (0..(16 * Q)) : t[3] \in Positions(t[1]) } }
EmitTable(G, Offsets) == JsonSerialize(IOEnv.CASES_OUT,
                            [scale |-> [TSC |-> Scale("TSC"), CIC |-> Scale("CIC")], Q |-> Q,
                             rows |-> SetToSeq(Table("TSC", G, Offsets) \cup Table("CIC", G, Offsets))])
======================================================================================
