"""C07 — parallel TSC equals serial TSC under every thread schedule.

spec/TscStripes.tla (D: Safe / rule; A: interleaving model), spec/TscDecisions.tla (T).
  M1a TLC arithmetic sweep: every configuration the (transcribed) rule accepts is Safe; the pinned
      rule is a positive control (must contain unsafe accepted configurations)
  M1b TLC interleaving model: narrowest accepted stripe width, ties and closed stripe boundaries,
      every interleaving of non-atomic read/write pairs -> grid = serial deposit; control: the
      2-cell stripes of the pinned rule must exhibit a lost update
  M3  decisions OBSERVED on the real tsc_parallel (hook event 'tsc_config' / ValueError) for every
      (n1d, nthread, npartition) are judged Safe by TLC; footprints recorded from the real
      partition_parallel + _tsc_scatter source (rows read-modify-written / changed per stripe) are
      checked for same-pass conflicts by TLC
  schedule replay: TLC-style adversarial interleavings replayed on the real _tsc_parallel source
  compiled: tsc_parallel(nthread=k) == nthread=1 bit-for-bit on dyadic lattice inputs
"""
import json
import os
import warnings

import numpy as np

from tlc import run_tlc, read_json

Q = 4


def rel(n1d, p):
    if p == n1d // 2 and p > n1d // 3:
        return 'np=n1d//2'
    if p <= n1d // 3:
        return 'np<=n1d//3'
    return 'other'


class RecGrid:
    """density stand-in for _tsc_scatter.py_func: records rows read-modify-written and rows changed"""
    def __init__(self, shape, coord):
        self.a = np.zeros(shape, dtype=np.float64)
        self.shape, self.ndim, self.coord = shape, len(shape), coord
        self.touched, self.nz = set(), set()
        self._last = None

    def __getitem__(self, idx):
        self._last = idx
        return self.a[idx]

    def __setitem__(self, idx, v):
        r = int(idx[self.coord]) % self.shape[self.coord]
        self.touched.add(r)
        if v != self.a[idx]:
            self.nz.add(r)
        self.a[idx] = v


def observe_decisions(maxn, threads):
    """Calls the real tsc_parallel on an empty particle set for every (n1d, coord, nthread, npartition).
    The grid is anisotropic: the partition axis has n1d cells, the other axes have many more, so that a
    rule evaluated on the wrong axis shows up as an unsafe accepted configuration.  n1d is taken from the
    grid handed in, never from the hook event."""
    from abacusnbody import _verif_trace
    from abacusnbody.analysis.tsc import tsc_parallel
    pos = np.zeros((0, 3), dtype=np.float32)
    out = []
    big = 3 * maxn + 7
    for n1d in range(1, maxn + 1):
        for coord in (0, 1, 2):
            shape = [big, big + 1, big + 2]
            shape[coord] = n1d
            shape[(coord + 1) % 3] = 3 if coord == 0 else shape[(coord + 1) % 3]   # keep coord 0 grids small
            shape[(coord + 2) % 3] = 3 if coord == 0 else shape[(coord + 2) % 3]
            grid = np.zeros(shape, dtype=np.float32)
            for t in (threads if coord == 0 else [2, 16]):
                for arg in range(0, (n1d if coord == 0 else min(n1d, big)) + 1):
                    ev = []
                    _verif_trace.sink = ev
                    try:
                        with warnings.catch_warnings():
                            warnings.simplefilter('ignore')
                            # the options that do not enter the rule (wrap, sort) rotate: the decision must not depend on them
                            tsc_parallel(pos, grid, 1.0, nthread=t, npartition=(arg or None), coord=coord, wrap=bool((n1d + arg + t) % 2), sort=bool((arg // 2 + coord + t // 2) % 2))
                        acc = True
                    except ValueError:
                        acc = False
                    finally:
                        _verif_trace.sink = None
                    import numba
                    eff = int(numba.get_num_threads())          # the thread count the deposit passes really ran with
                    cfgs = [e for e in ev if e['event'] == 'tsc_config']
                    p = cfgs[0]['npartition'] if cfgs else (arg or -1)
                    if acc and not cfgs:
                        raise RuntimeError('tsc_config hook event missing (is ABACUSUTILS_VERIF=1 and the hook commit present?)')
                    # judged with the larger of the requested and the effective thread count: a serial request that leaves numba
                    # running more threads is concurrent whatever the validation assumed
                    out.append(dict(n1d=n1d, nthread=max(t, eff) if acc else t, nthread_requested=t, arg=arg, accepted=acc, np=max(int(p), 1) if acc else int(p), coord=coord))
    return out


def observe_footprint(n1d, p, o, coord, dtype, nthread):
    from abacusnbody.analysis.tsc import partition_parallel, _tsc_scatter
    cell = 4.0
    box = n1d * cell
    ms = np.arange(0, n1d * Q + 1)
    pos = np.full((len(ms), 3), 1.25 * cell, dtype=dtype)
    pos[:, coord] = ms * (cell / Q)
    shape = [n1d, n1d, n1d]       # cubic: n1d/box is dyadic on every axis, all sums exact
    pp, starts, _ = partition_parallel(pos, p, box, nthread=nthread, coord=coord)
    touched, nz, members = [], [], []
    for s in range(p):
        g = RecGrid(tuple(shape), coord)
        sl = pp[starts[s]:starts[s + 1]]
        _tsc_scatter.py_func(sl, g, box, offset=o * cell / Q)
        touched.append(sorted(g.touched))
        nz.append(sorted(g.nz))
        members.append(sorted(int(round(float(x) * Q / cell)) for x in sl[:, coord]))
    return dict(n1d=n1d, np=p, o=o, touched=touched, nz=nz, coord=coord, dtype=np.dtype(dtype).name, members=members)


def run(chk):
    from abacusnbody.analysis.tsc import tsc_parallel
    chk.cov['rule'] = ('configurations (n1d, nthread, npartition incl. default) enumerated exhaustively up to the tier bound; each decided on the real '
                       'tsc_parallel and judged by TLC; footprints = one lattice particle per 1/4 cell along the partition axis; non-trivial = accepted '
                       'configuration with more than 2 stripes and more than 1 thread (concurrency possible)')
    chk.assumptions += ['positions on a 1/4-cell lattice incl. both tie resolutions and closed stripe boundaries; sub-lattice float effects at exact '
                        'ties give weights below float rounding and are outside the model',
                        'each grid update is modelled as a non-atomic read followed by a write; stripes of a pass may all run concurrently',
                        'compiled-thread comparison is probabilistic (races are not forced); forced schedules use the interpreted kernel source']
    maxn_rule = 40 if chk.quick else 96
    maxt_rule = 8 if chk.quick else 32
    offs = '{-4, -2, -1, 0, 1, 2, 3, 4}'
    # ---- M1a arithmetic sweep
    vf = os.path.join(chk.scratch, 'rule.json')
    base_cfg = 'CONSTANTS\n  Q = 4\n  N1D = %d\n  NP = %d\n  OFF = %d\n  PartsPerStripe = %d\n  Loaded <- %s\nSPECIFICATION ASpec\nINVARIANT NoLostUpdate\nINVARIANT Conserved\n'

    def mc(name, extra, loaded):
        return f'---- MODULE {name} ----\nEXTENDS TscStripes, Json, IOUtils, SequencesExt\nMCLoaded == {loaded}\n{extra}\n====\n'

    res = run_tlc(chk, 'MC_TscRule', module_text=mc('MC_TscRule', f'''Offs == {offs}
ASSUME JsonSerialize(IOEnv.VERDICT_OUT, [fixed |-> SetToSeq(UnsafePairs({maxn_rule}, {maxt_rule}, Offs, "fixed")),
                                         pinned |-> Cardinality(UnsafePairs(24, 8, Offs, "pinned"))])''', '{0}'),
                  cfg_text=base_cfg % (3, 1, 0, 1, 'MCLoaded'), env={'VERDICT_OUT': vf}, timeout=3000)
    rv = read_json(vf)
    chk.part('M1a_rule_sweep', maxn=maxn_rule, maxt=maxt_rule, transcribed_rule_unsafe=len(rv['fixed']), pinned_rule_unsafe_control=rv['pinned'])
    if rv['pinned'] == 0:
        raise RuntimeError('positive control failed: pinned rule has no unsafe accepted configuration in the model')
    if rv['fixed']:
        chk.note(f'transcribed rule accepts configurations TLC cannot prove safe: {rv["fixed"][:5]} (real decisions are judged separately)')
    # ---- M1b interleavings
    inst = [(12, 4, 0, 1, '{0, 2}'), (12, 4, 2, 1, '{0, 2}'), (13, 4, 2, 1, '{0, 2}')]
    if not chk.quick:
        inst += [(12, 4, 2, 1, '{0, 1, 2, 3}'), (12, 4, 1, 2, '{0, 2}'), (18, 6, 2, 1, '{0, 2, 4}')]
    for (n, p, o, k, ld) in inst:
        r = run_tlc(chk, 'MC_TscA', module_text=mc('MC_TscA', '', ld), cfg_text=base_cfg % (n, p, o, k, 'MCLoaded'), timeout=3000)
        chk.part(f'M1b_n{n}_np{p}_o{o}_k{k}_{ld}', states=r['distinct'], depth=r['depth'])
    ctl = run_tlc(chk, 'MC_TscA', module_text=mc('MC_TscA', '', '{0, 2}'), cfg_text=base_cfg % (8, 4, 0, 1, 'MCLoaded'),
                  expect_violation=True, record=False, timeout=600)
    if ctl['outcome'] != 'invariant':
        raise RuntimeError('positive control failed: 2-cell stripes did not produce a lost update in the model')
    chk.part('M1b_control_n8_np4', outcome='NoLostUpdate violated (expected)')
    # odd stripe count: stripes 0 and np-1 are in the same pass and adjacent through the periodic wrap
    ctl = run_tlc(chk, 'MC_TscA', module_text=mc('MC_TscA', '', '{0, 2}'), cfg_text=base_cfg % (9, 3, 2, 1, 'MCLoaded'),
                  expect_violation=True, record=False, timeout=600)
    if ctl['outcome'] != 'invariant':
        raise RuntimeError('positive control failed: odd stripe count did not produce a lost update in the model')
    chk.part('M1b_control_odd_np3', outcome='NoLostUpdate violated (expected)')
    # ---- M3: observed decisions and footprints judged by TLC
    maxn = 32 if chk.quick else 96
    threads = [1, 2, 3, 4, 8, 16]
    dec = observe_decisions(maxn, threads)
    fps = []
    seen = set()
    acc_conc = sorted({(d['n1d'], d['np']) for d in dec if d['accepted'] and d['nthread'] > 1 and d['np'] > 2})
    lim = 30 if chk.quick else 200
    # narrowest stripes first
    acc_conc.sort(key=lambda x: (x[0] / x[1], x[0]))
    acc_all = acc_conc
    # footprints / schedules / compiled comparisons need a grid the kernels can run on
    acc_conc = [(n, p) for (n, p) in acc_conc if n >= 3 and p <= n]
    for (n1d, p) in acc_conc[:lim]:
        for o in (0, 2, -2, 1):
            for coord, dt in ((0, np.float32), (1, np.float64), (2, np.float32)):
                if (n1d, p, o, coord) in seen or (chk.quick and coord != (n1d + o) % 3):
                    continue
                seen.add((n1d, p, o, coord))
                fps.append(observe_footprint(n1d, p, o, coord, dt, 2 + (n1d % 3)))
    # thorough: configurations exercised by the repository's own runnable TSC tests (hooks on, events recorded to a file)
    if not chk.quick:
        import subprocess
        import sys
        trf = os.path.join(chk.scratch, 'repo_tests_trace.ndjson')
        repo = os.environ.get('VERIF_REPO', '/repo')
        env = dict(os.environ, ABACUSUTILS_VERIF='1', ABACUSUTILS_VERIF_TRACE=trf)
        subprocess.run([sys.executable, '-m', 'pytest', '-q', '-p', 'no:cacheprovider', 'tests/test_tsc.py', '-k', 'test_single or test_multi'], cwd=repo, env=env,
                       capture_output=True, text=True, timeout=1800)
        nev = 0
        if os.path.exists(trf):
            for line in open(trf):
                e = json.loads(line)
                if e.get('event') == 'tsc_config':
                    nev += 1
                    dec.append(dict(n1d=int(e['n1d']), nthread=int(e['nthread']), arg=-1, accepted=True, np=max(int(e['npartition']), 1), coord=int(e['coord']), source='tests/test_tsc.py'))
        chk.part('repo_test_traces', tsc_config_events=nev)
    tf = os.path.join(chk.scratch, 'obs.json')
    json.dump(dict(offsets=[-4, -2, -1, 0, 1, 2, 3, 4], decisions=dec, footprints=fps), open(tf, 'w'))
    vf2 = os.path.join(chk.scratch, 'verdict.json')
    tcfg = 'CONSTANTS\n  Q = 4\n  N1D = 3\n  NP = 1\n  OFF = 0\n  PartsPerStripe = 0\n  Loaded <- MCLoaded\nSPECIFICATION ASpec\nINVARIANT NoLostUpdate\n'
    ttext = '---- MODULE MC_TscDecisions ----\nEXTENDS TscDecisions\nMCLoaded == {}\nASSUME EmitVerdict(0)\n====\n'
    run_tlc(chk, 'MC_TscDecisions', module_text=ttext, cfg_text=tcfg, env={'TRACE_FILE': tf, 'VERDICT_OUT': vf2}, timeout=3000)
    v = read_json(vf2)
    nacc = sum(1 for d in dec if d['accepted'])
    chk.part('M3_decisions', calls=len(dec), accepted=nacc, accepted_concurrent=len(acc_all), unsafe=len(v['unsafe']),
             footprints=len(fps), footprint_conflicts=len(v['conflicts']), outside_model=len(v['outside']))
    chk.add_cases(len(dec) + len(fps), nontrivial=sum(1 for d in dec if d['accepted'] and d['nthread'] > 1 and d['np'] > 2) + len(fps),
                  traces=len(dec) + len(fps))
    chk.sample(dict(decision=[d for d in dec if d['accepted'] and d['nthread'] > 1 and d['np'] > 2][:2]))
    if fps:
        chk.sample(dict(footprint={k: fps[0][k] for k in ('n1d', 'np', 'o', 'touched', 'nz')}))
    for i in v['unsafe']:
        d = dec[i - 1]
        chk.violation(f'unsafe-accepted-{rel(d["n1d"], d["np"])}' + ('' if d.get('coord', 0) == 0 else '-coord>0') + ('-threads-leak' if d.get('nthread_requested', d['nthread']) != d['nthread'] else ''),
                      f'tsc_parallel accepts n1d={d["n1d"]} (coord={d.get("coord", 0)}) nthread={d.get("nthread_requested", d["nthread"])} (deposit ran with {d["nthread"]} numba threads) npartition={"default" if d["arg"] == 0 else d["arg"]} -> {d["np"]} stripes{" (configuration recorded from tests/test_tsc.py)" if d.get("source") else ""}; '
                      f'TLC: two stripes of the same pass update a common row', dict(kind='decision', **d))
    for i in v['conflicts']:
        f = fps[i - 1]
        chk.violation(f'footprint-conflict-{rel(f["n1d"], f["np"])}',
                      f'real kernels: same-pass stripes share a row for n1d={f["n1d"]} np={f["np"]} offset={f["o"]}/4 cell', dict(kind='footprint', **f))
    if v['outside']:
        chk.note(f'model-drift C07: {len(v["outside"])} recorded footprints leave the model\'s stripe rows, e.g. {fps[v["outside"][0] - 1]}')
    # ---- schedule replay on the real source of _tsc_parallel
    import sched
    nrep = 0
    replay_ok = True
    # interpreted replays cost ~ n1d^3 per schedule: the narrowest accepted stripes on small grids are the informative ones
    for (n1d, p) in [x for x in acc_conc if x[0] <= 36][: (3 if chk.quick else 12)]:
        if not replay_ok:
            break
        for o in (0, 2):
            if not replay_ok:
                break
            for drop in ((), (1,), (p - 2,), (1, 2, 3)):
                if drop and (max(drop) >= p or (chk.quick and o != 0)):
                    continue
                try:
                    r = sched.replay_tsc(n1d, p, o, Q, drop=drop)
                except Exception as e:  # noqa  (the replayer rewrites the kernel's source: a restructured source it cannot drive is a loss of coverage, not a violation)
                    chk.note(f'_tsc_parallel schedule replay not available: {type(e).__name__}: {str(e)[:200]}')
                    replay_ok = False
                    break
                nrep += r['schedules']
                if r['lost']:
                    chk.violation(f'schedule-lost-update-{rel(n1d, p)}' + ('-empty-stripes' if drop else ''),
                                  f'adversarial schedule on _tsc_parallel source loses a deposit: n1d={n1d} np={p} offset={o}/4 cell, stripes without particles {list(drop)}: {r["detail"]}',
                                  dict(kind='schedule', n1d=n1d, np=p, o=o, drop=list(drop), detail=r['detail']))
    chk.part('schedule_replay', schedules=nrep)
    chk.add_cases(nrep)
    # ---- compiled threads vs serial, exact on dyadic lattice
    ncmp = 0
    rng = np.random.default_rng(chk.seed)
    cases = [(n1d, p) for (n1d, p) in acc_conc if n1d >= 8][: (3 if chk.quick else 12)]
    for (n1d, p) in cases:
        cell = 4.0
        box = n1d * cell
        N = 400_000 if chk.quick else 1_500_000
        # particles concentrated near stripe boundaries on the lattice
        W = n1d / p
        bnd = (np.arange(p) * W)
        m = (rng.choice(bnd, N)[:, None] * Q + rng.integers(-3 * Q, 3 * Q + 1, (N, 1))) % (n1d * Q)
        pos = np.empty((N, 3), dtype=np.float32)
        pos[:, 0] = (np.floor(m[:, 0]) / Q) * cell
        pos[:, 1:] = rng.integers(0, 3 * Q, (N, 2)) * (cell / Q)     # cubic grid: n1d/box = 1/cell is dyadic on every axis
        w = rng.integers(1, 4, N).astype(np.float32)
        # leave stripe 1 without particles (the pass structure must not depend on which stripes are occupied)
        if len(cases) and (n1d, p) == cases[0] and p >= 4:
            st1 = np.minimum(np.floor(pos[:, 0] * p / box).astype(int), p - 1)
            keepm = st1 != 1
            pos, w = pos[keepm].copy(), w[keepm].copy()
        # the second offset run hands the positions over in the box-centred convention [-L/2, L/2): the periodic wrap is tsc_parallel's job (wrap=True),
        # and it must happen BEFORE the particles are assigned to stripes
        for o in (0.0, cell / 2):
            if o:
                pos = pos.copy()
                pos[:, 0] = np.where(pos[:, 0] >= box / 2, pos[:, 0] - box, pos[:, 0])
            with warnings.catch_warnings():
                warnings.simplefilter('ignore')
                ref = tsc_parallel(pos.copy(), np.zeros((n1d, n1d, n1d), dtype=np.float64), box, weights=w, nthread=1, offset=o)
                for t in (2, 4, 16):
                    for rep in range(2 if chk.quick else 5):
                        try:
                            g = tsc_parallel(pos.copy(), np.zeros((n1d, n1d, n1d), dtype=np.float64), box, weights=w, nthread=t, npartition=p, offset=o, sort=bool((rep + t // 4) % 2))
                        except ValueError:
                            continue
                        ncmp += 1
                        if not np.array_equal(g, ref):
                            chk.violation(f'compiled-mismatch-{rel(n1d, p)}',
                                          f'tsc_parallel(nthread={t}, npartition={p}, sort={bool((rep + t // 4) % 2)}, weights) differs from nthread=1 on exact (dyadic) input: n1d={n1d}, '
                                          f'max abs diff {float(np.abs(g - ref).max())}, total {float(g.sum())} vs {float(ref.sum())}',
                                          dict(kind='compiled', n1d=n1d, np=p, nthread=t, offset=o, seed=chk.seed))
    chk.part('compiled_vs_serial', comparisons=ncmp)
    chk.add_cases(ncmp)


def replay(chk, path):
    d = json.load(open(path))
    p = d['payload']
    print('replay payload kind:', p.get('kind'))
    if p.get('kind') == 'schedule':
        import sched
        r = sched.replay_tsc(p['n1d'], p['np'], p['o'], Q, drop=tuple(p.get('drop', ())))
        if r['lost']:
            chk.violation(d['key'], r['detail'], p)
    elif p.get('kind') == 'decision':
        from abacusnbody.analysis.tsc import tsc_parallel
        try:
            tsc_parallel(np.zeros((0, 3), dtype=np.float32), np.zeros((p['n1d'], 3, 3), dtype=np.float32), 1.0, nthread=p['nthread'], npartition=(p['arg'] or None), verbose=True)
            print('accepted')
            chk.violation(d['key'], 'configuration still accepted', p)
        except ValueError as e:
            print('rejected:', e)
