"""C06 — mass assignment conserves weight and applies the TSC/CIC kernel.

spec/MassAssign.tla.
  M1  TLC (constant level, whole lattice): the code's algorithm (round, three weights, rightwrap + negative
      index wrap; either tie resolution) equals the declarative kernel summed over periodic images (A = D);
      conservation, non-negativity, roll-equivariance of D; InBounds of every index
  M2  TLC emits the 1-D deposit of every (kind, g, offset, lattice position); the harness forms the separable
      3-D expectation and compares the real _tsc_scatter / tsc_parallel / cic_serial / get_field EXACTLY
      (dyadic positions, weights, boxes): single particles on every lattice point of every axis, multi-particle
      sets accumulated into a pre-filled grid, out-of-range positions with wrap, whole-cell rolls
"""
import json
import os
import warnings

import numpy as np

from common import relayout

from tlc import run_tlc, read_json

Q = 4
SHAPES = {'TSC': [((4, 4, 4), 8.0), ((3, 6, 3), 12.0), ((6, 3, 12), 12.0), ((4, 2, 8), 8.0), ((5, 5, 5), 20.0)],
          'CIC': [((4, 4, 4), 8.0), ((3, 6, 3), 12.0), ((6, 3, 12), 12.0), ((5, 5, 5), 20.0), ((4, 8, 1), 8.0), ((2, 2, 2), 4.0)]}
OFFS = [-2, -1, 0, 1, 2]


class Oracle:
    def __init__(self, table):
        self.scale = table['scale']
        self.rows = {(r['kind'], r['g'], r['o'], r['m']): np.array(r['cells'], dtype=np.float64) for r in table['rows']}

    def grid(self, kind, shape, ms, ws, o, twoD=False):
        out = np.zeros(shape, dtype=np.float64)
        sc = float(self.scale[kind])
        for m, w in zip(ms, ws):
            cs = []
            for ax in range(3):
                g = shape[ax]
                if ax == 2 and twoD:
                    cs.append(np.ones(1))
                    continue
                mm = int(m[ax])
                if mm < 0 or mm > g * Q:
                    mm %= g * Q
                oa = o[ax] if isinstance(o, (tuple, list)) else o
                cs.append(self.rows[(kind, g, oa, mm)] / sc)
            out += w * cs[0][:, None, None] * cs[1][None, :, None] * cs[2][None, None, :]
        return out


def positions(ms, shape, box, dtype):
    ms = np.asarray(ms, dtype=np.float64).reshape(-1, 3)
    h = np.array([box / g for g in shape])
    return (ms * (h / Q)).astype(dtype)


def axis_offsets(shape, box, k):
    """a physical offset that is k lattice steps on the finest axis and a whole number of lattice steps (|o| <= 4) on
    every axis; returns (offset length, per-axis lattice offsets) or None"""
    hq = [box / g / Q for g in shape]
    off = k * max(hq)
    o = [off / h for h in hq]
    if all(abs(x - round(x)) < 1e-12 and abs(round(x)) <= 4 for x in o):
        return off, tuple(int(round(x)) for x in o)
    return None


def classify(ms, shape, o):
    ks = set()
    oo = o
    for m in np.asarray(ms).reshape(-1, 3):
        for ax in range(3):
            o = oo[ax] if isinstance(oo, (tuple, list)) else oo
            g = shape[ax]
            if m[ax] < 0 or m[ax] >= g * Q:
                ks.add('wrap' if m[ax] != g * Q else 'atbox')
            elif (m[ax] + o) % Q == Q // 2:
                ks.add('tie')
            elif m[ax] + o < Q or m[ax] + o > (g - 1) * Q:
                ks.add('edge')
    return '+'.join(sorted(ks)) or 'interior'


def run(chk):
    from abacusnbody.analysis.tsc import tsc_parallel, _tsc_scatter
    from abacusnbody.analysis.cic import cic_serial
    from abacusnbody.analysis.power_spectrum import get_field
    rng = np.random.default_rng(chk.seed)
    chk.cov['rule'] = ('particle sets on a 1/4-cell lattice: every lattice point of every axis (single particles), random multi-particle sets with dyadic '
                       'weights into pre-filled grids, out-of-range positions with wrap, whole-cell shifts; shapes cubic and anisotropic; '
                       'non-trivial = deposit touching a tie, the periodic boundary, or several particles; distinct by (routine, shape, offset, dtype, particle set)')
    chk.assumptions += ['positions/weights/boxes dyadic so that float32/float64 results are exact and compared by equality',
                        'anisotropic shapes restricted to g_i/BoxSize dyadic on every axis',
                        'TSC on a 3-D array with a one-cell axis is outside the documented domain (2-D is ndim == 2) and not exercised']
    tf = os.path.join(chk.scratch, 'table.json')
    text = '''---- MODULE MC_MassAssign ----
EXTENDS MassAssign
VARIABLE x
G == {2, 3, 4, 5, 6, 8, 12}
Offs == {-4, -3, -2, -1, 0, 1, 2, 3, 4}
ASSUME AEqualsD("TSC", G, Offs) /\\ AEqualsD("CIC", G \\cup {1}, Offs)
ASSUME Conservation("TSC", G, Offs) /\\ Conservation("CIC", G, Offs)
ASSUME RollEquivariance("TSC", G, Offs) /\\ RollEquivariance("CIC", G, Offs)
\\* the only index TLC cannot prove in bounds: 2 cells, half-cell offset, position = BoxSize, tie resolved upwards
ASSUME \\A t \\in OutOfBounds("TSC", G, Offs) \\cup OutOfBounds("CIC", G, Offs) : t[1] = 2 /\\ (t = <<2, 2, 8>> \\/ t[2] > 2 \\/ t[2] < -2)
ASSUME EmitTable(G, Offs)
Init == x = 0
Next == x' = x
====
'''
    res = run_tlc(chk, 'MC_MassAssign', module_text=text, cfg_text='CONSTANTS\n  Q = 4\nINIT Init\nNEXT Next\n', env={'CASES_OUT': tf}, timeout=900)
    table = read_json(tf)
    orc = Oracle(table)
    nrows = len(table['rows'])
    # constant-level evaluation: count the enumerated lattice configurations as the explored states
    chk.cov['states'] += nrows
    chk.cov['transitions'] += nrows
    chk.part('M1_M2', theorems='A=D, Conservation, RollEquivariance, InBounds hold on the lattice', table_rows=nrows)
    # positive control: a floor()-instead-of-round() variant of layer A must differ from D
    ctl = '''---- MODULE MC_MassCtl ----
EXTENDS MassAssign
VARIABLE x
ASSUME \\E m \\in 0..16 : A1("TSC", m, m \\div Q, 4) # D1("TSC", m, 4)
Init == x = 0
Next == x' = x
====
'''
    run_tlc(chk, 'MC_MassCtl', module_text=ctl, cfg_text='CONSTANTS\n  Q = 4\nINIT Init\nNEXT Next\n', record=False, timeout=300)
    chk.part('control_floor', outcome='floor-instead-of-round variant differs from D (expected)')

    nrun = [0, 0]

    def compare(fn, kind, shape, box, ms, ws, o, got, base=None, twoD=False, info=''):
        exp = orc.grid(kind, shape, ms, ws, o, twoD=twoD)
        if base is not None:
            exp = exp + base
        nrun[0] += 1
        cls = classify(ms, shape, o)
        if cls != 'interior' or len(ms) > 1:
            nrun[1] += 1
        g64 = got.astype(np.float64)
        bad = None
        if g64.shape != exp.shape:
            bad = f'shape {g64.shape} != {exp.shape}'
        elif not np.array_equal(g64, exp):
            d = np.abs(g64 - exp)
            w = np.unravel_index(np.argmax(d), d.shape)
            bad = (f'deposit differs from the kernel: max |diff| {d.max():.6g} at cell {tuple(int(i) for i in w)} '
                   f'(got {g64[w]:.6g}, expected {exp[w]:.6g}); total {g64.sum():.6g} vs {exp.sum():.6g}; min {g64.min():.6g}')
        if bad:
            chk.violation(f'{kind}-{fn}-{cls}', f'{fn} shape={shape} box={box} offset={o}/4 cell {info} lattice positions={np.asarray(ms).tolist()[:4]} weights={list(ws)[:4]}: {bad}',
                          dict(fn=fn, kind=kind, shape=list(shape), box=box, ms=np.asarray(ms).tolist(), ws=list(map(float, ws)), o=o, info=info))

    def supplied(pos, grid, box, **kw):
        """tsc_parallel deposits into the grid the caller supplies: the supplied array itself is what is judged (the return value must agree with it)"""
        ret = tsc_parallel(pos, grid, box, **kw)
        if ret is not None and ret is not grid and (np.asarray(ret).shape != grid.shape or not np.array_equal(np.asarray(ret), grid)):
            chk.violation('tsc_parallel-supplied-grid-not-updated', f'tsc_parallel with a supplied {grid.dtype} grid and {pos.dtype} positions ({kw}): the returned grid differs from the '
                          f'supplied array (supplied total {float(grid.sum()):.6g}, returned total {float(np.asarray(ret).sum()):.6g}) — the deposit did not accumulate into the caller\'s grid',
                          dict(shape=list(grid.shape), gdt=str(grid.dtype), pdt=str(pos.dtype)))
        return grid

    def gridlayout(g, mode):
        """the caller's grid in another memory layout: contiguous copy / every second plane of a wider buffer / Fortran order"""
        mode = mode % 3
        if mode == 1:
            big = np.zeros(g.shape[:2] + (2 * g.shape[2],), dtype=g.dtype)
            v = big[:, :, ::2]
            v[...] = g
            return v
        return np.asfortranarray(g.copy()) if mode == 2 else g.copy()

    def run_tsc_scatter(shape, box, ms, ws, o, pdt, gdt, base=None):
        pos = positions(ms, shape, box, pdt)
        grid = np.zeros(shape, dtype=gdt) if base is None else base.astype(gdt).copy()
        w = None if ws is None else np.asarray(ws, dtype=pdt)
        _tsc_scatter(pos, grid, box, weights=w, offset=o * (box / shape[0]) / Q if shape[0] == shape[1] == shape[2] else 0.0)
        return grid

    with warnings.catch_warnings():
        warnings.simplefilter('ignore')
        # ---- S1: single particles on every lattice point of every axis
        for kind in ('TSC', 'CIC'):
            for (shape, box) in SHAPES[kind]:
                twoD = kind == 'CIC' and shape[2] == 1
                cubic = shape[0] == shape[1] == shape[2]
                if kind != 'TSC':
                    offs = [(0.0, 0)]
                elif cubic:
                    offs = [(o * (box / shape[0]) / Q, o) for o in OFFS]
                else:
                    offs = [(0.0, 0)] + [x for x in (axis_offsets(shape, box, k) for k in (1, -1, 2)) if x]
                for off, o in offs:
                    for ax in range(3):
                        if twoD and ax == 2:
                            continue
                        for m in range(0, shape[ax] * Q + 1):
                            mm = [5 % (shape[0] * Q), 7 % (shape[1] * Q), 2 % (shape[2] * Q)]
                            mm[ax] = m
                            pdt, gdt = [(np.float32, np.float32), (np.float64, np.float64), (np.float32, np.float64)][(m + ax) % 3]
                            pos = positions([mm], shape, box, pdt)
                            if kind == 'TSC':
                                g = np.zeros(shape, dtype=gdt)
                                _tsc_scatter(pos, g, box, offset=off)
                                compare('_tsc_scatter', kind, shape, box, [mm], [1.0], o, g)
                                n1d = shape[ax]
                                g2 = supplied(pos.copy(), np.zeros(shape, dtype=gdt), box, nthread=1 + (m % 3), coord=ax, offset=off, wrap=bool(m % 2))
                                compare('tsc_parallel', kind, shape, box, [mm], [1.0], o, g2, info=f'nthread={1 + m % 3} coord={ax}')
                            else:
                                g = np.zeros(shape, dtype=gdt)
                                cic_serial(pos, g, box)
                                compare('cic_serial', kind, shape, box, [mm], [1.0], 0, g, twoD=twoD)
        chk.part('S1_single_particles', runs=nrun[0])
        # ---- S2: multi-particle sets, weights, accumulation into a supplied grid, all thread / partition settings
        reps = 40 if chk.quick else 400
        for rep in range(reps):
            kind = ('TSC', 'CIC')[rep % 2]
            shape, box = SHAPES[kind][rep % len(SHAPES[kind])]
            twoD = kind == 'CIC' and shape[2] == 1
            cubic = shape[0] == shape[1] == shape[2]
            npart = int(rng.integers(2, 9))
            ms = np.stack([rng.integers(0, shape[a] * Q + 1, npart) for a in range(3)], axis=1)
            # weights of either sign (data minus randoms) and zero weights: the deposit is linear in the weights
            ws = rng.choice([1.0, 0.75, 0.5, 2.0] if rep % 4 < 2 else [1.0, -1.0, -0.5, 2.0, 0.0], npart)       # (both kernel kinds: rep % 2 picks the kind)
            if kind == 'TSC' and cubic:
                o = int(rng.choice(OFFS))
                off = o * (box / shape[0]) / Q
            elif kind == 'TSC':
                off, o = ([(0.0, 0)] + [x for x in (axis_offsets(shape, box, k) for k in (1, -1, 2)) if x])[rep % 3 % 2 + (rep // 7) % 2]
            else:
                off, o = 0.0, 0
            base = rng.integers(0, 4, shape).astype(np.float64) * 0.25
            pdt = [np.float32, np.float64][rep % 2]
            pos = positions(ms, shape, box, pdt)
            hw = rep % 3 != 0
            w = ws.astype(pdt) if hw else None
            wl = ws if hw else np.ones(npart)
            if kind == 'TSC':
                g = base.copy()
                _tsc_scatter(pos, g, box, weights=w, offset=off)
                compare('_tsc_scatter', kind, shape, box, ms, wl, o, g, base=base, info='accumulate')
                for coord in range(3):
                    n1d = shape[coord]
                    for nthread, nparts in ((1, None), (2, None), (4, None), (3, 2), (16, None), (2, max(2, 2 * (n1d // 6))), (1, 3), (1, 1), (1, 5 + 2 * (rep % 3)), (1, 2 * (1 + rep % 4))):   # one thread accepts any stripe count, odd ones too
                        try:
                            g2 = supplied(relayout(pos, rep + nthread), gridlayout(base, rep + nthread // 2), box, weights=None if w is None else relayout(w, rep // 3 + coord), nthread=nthread, npartition=nparts,
                                              coord=coord, sort=bool((rep // 2) % 2), offset=off)
                        except ValueError:
                            continue
                        compare('tsc_parallel', kind, shape, box, ms, wl, o, g2, base=base, info=f'nthread={nthread} npartition={nparts} coord={coord} sort={bool((rep // 2) % 2)}')
            else:
                g = base.copy()
                cic_serial(relayout(pos, rep // 2), g, box, weights=None if w is None else relayout(w, rep // 5))
                compare('cic_serial', kind, shape, box, ms, wl, 0, g, base=base, twoD=twoD, info=f'accumulate layout={(rep // 2) % 3}')
        chk.part('S2_sets', runs=nrun[0])
        # ---- S3: out-of-range positions with wrap (tsc_parallel), and the value BoxSize on every axis
        for rep in range(30 if chk.quick else 300):
            shape, box = SHAPES['TSC'][rep % len(SHAPES['TSC'])]
            npart = int(rng.integers(1, 6))
            ms = np.stack([rng.integers(-shape[a] * Q, 2 * shape[a] * Q, npart) for a in range(3)], axis=1)
            pdt = [np.float64, np.float32][rep % 2]
            pos = positions(ms, shape, box, pdt)
            p0 = pos.copy()
            g2 = supplied(pos, np.zeros(shape, dtype=np.float64), box, nthread=1 + rep % 4, wrap=True)
            compare('tsc_parallel', 'TSC', shape, box, ms, np.ones(npart), 0, g2, info='wrap=True')
        chk.part('S3_wrap', runs=nrun[0])
        # ---- S4: get_field (cubic), TSC and CIC, with offset d; undo the overdensity normalisation
        for rep in range(12 if chk.quick else 80):
            kind = ('TSC', 'CIC')[rep % 2]
            nmesh, box = [(4, 8.0), (5, 20.0), (8, 16.0)][rep % 3]
            shape = (nmesh,) * 3
            npart = int(rng.integers(1, 7))
            ms = np.stack([rng.integers(0, nmesh * Q, npart) for a in range(3)], axis=1)
            o = int(rng.choice(OFFS))
            pos = positions(ms, shape, box, np.float32)
            d = o * (box / nmesh) / Q
            psame = pos.copy()
            f = get_field(psame, box, nmesh, kind, w=None, d=d, nthread=1 + rep % 3, dtype=[np.float32, np.float64][(rep // 2) % 2])
            # the same positions array painted a second time gives the same field (an in-place periodic wrap is harmless; a displacement left behind is not)
            f_again = get_field(psame, box, nmesh, kind, w=None, d=d, nthread=1 + rep % 3, dtype=[np.float32, np.float64][(rep // 2) % 2])
            if not np.array_equal(f, f_again):
                chk.violation(f'{kind}-get_field-second-call', f'get_field({kind}, d={o}/4 cell) called twice on the same positions array gives different fields '
                              f'(the array moved by {float(np.abs(psame.astype(np.float64) - pos.astype(np.float64)).max())} in the meantime)', dict(fn='get_field', kind=kind, o=o))
            dep = (f.astype(np.float64) + 1.0) * npart / f.size
            # the overdensity normalisation is a float operation: tolerance 1e-6, far below the smallest
            # possible kernel discrepancy on this lattice (2^-15)
            exp = orc.grid(kind, shape, ms, np.ones(npart), o)
            nrun[0] += 1
            nrun[1] += 1
            if dep.shape != exp.shape or np.abs(dep - exp).max() > 1e-6:
                dd = np.abs(dep - exp)
                chk.violation(f'{kind}-get_field-{classify(ms, shape, o)}', f'get_field {kind} nmesh={nmesh} d={o}/4 cell: deposit differs from kernel (max {dd.max():.4g}, total {dep.sum():.6g} vs {exp.sum():.6g})',
                              dict(fn='get_field', kind=kind, shape=list(shape), box=box, ms=ms.tolist(), ws=[1.0] * npart, o=o))
        chk.part('S4_get_field', runs=nrun[0])
        # ---- S5: metamorphic roll on the real code
        for rep in range(10 if chk.quick else 100):
            kind = ('TSC', 'CIC')[rep % 2]
            shape, box = SHAPES[kind][0]
            npart = 6
            ms = np.stack([rng.integers(0, shape[a] * Q, npart) for a in range(3)], axis=1)
            sh = rng.integers(0, shape[0] + 1, 3)
            ms2 = (ms + sh * Q) % (np.array(shape) * Q)
            fn = (lambda p, g: _tsc_scatter(p, g, box)) if kind == 'TSC' else (lambda p, g: cic_serial(p, g, box))
            g1 = np.zeros(shape)
            g2 = np.zeros(shape)
            fn(positions(ms, shape, box, np.float64), g1)
            fn(positions(ms2, shape, box, np.float64), g2)
            nrun[0] += 1
            nrun[1] += 1
            if not np.array_equal(np.roll(g1, tuple(int(s) for s in sh), axis=(0, 1, 2)), g2):
                chk.violation(f'{kind}-roll', f'{kind}: shifting particles by {sh.tolist()} cells does not roll the grid', dict(fn='roll', kind=kind, ms=ms.tolist(), shift=sh.tolist()))
        chk.part('S5_roll', runs=nrun[0])
        # ---- S6: no particles at all: the supplied grid is returned unchanged, whatever the thread / partition settings
        for kind, (shape, box) in (('TSC', SHAPES['TSC'][0]), ('TSC', SHAPES['TSC'][-1]), ('CIC', SHAPES['CIC'][0])):
            base0 = rng.integers(0, 4, shape).astype(np.float64) * 0.25
            for pdt in (np.float32, np.float64):
                empty = np.zeros((0, 3), dtype=pdt)
                outs = []
                try:
                    if kind == 'TSC':
                        g = base0.copy()
                        _tsc_scatter(empty, g, box)
                        outs.append(('_tsc_scatter', g))
                        for nthread, nparts in ((1, None), (4, None), (2, 2), (1, 3)):
                            for hw in (False, True):
                                outs.append((f'tsc_parallel nthread={nthread} npartition={nparts} weights={hw}', supplied(empty.copy(), base0.copy(), box, weights=(np.zeros(0, dtype=pdt) if hw else None), nthread=nthread, npartition=nparts)))
                        # the grid requested by size (a shape tuple; an int for cubic grids): a zero grid of that shape comes back
                        for spec_ in ([tuple(int(v) for v in shape)] + ([int(shape[0])] if shape[0] == shape[1] == shape[2] else [])):
                            for nthread in (1, 3):
                                r0 = tsc_parallel(empty.copy(), spec_, box, nthread=nthread)
                                nrun[0] += 1
                                if not isinstance(r0, np.ndarray) or r0.shape != tuple(shape) or np.any(r0 != 0):
                                    chk.violation('TSC-empty-allocated-grid', f'tsc_parallel(no particles, densgrid={spec_!r}, nthread={nthread}) returned {type(r0).__name__} '
                                                  f'{getattr(r0, "shape", r0)!r}; expected a zero array of shape {tuple(shape)}', dict(fn='empty', kind=kind, shape=list(shape)))
                        # and with particles: the allocated grid equals the deposit into a supplied zero grid
                        msx = np.stack([rng.integers(0, shape[a] * Q + 1, 5) for a in range(3)], axis=1)
                        px = positions(msx, shape, box, pdt)
                        want_g = supplied(px.copy(), np.zeros(shape, dtype=np.float32), box, nthread=2)
                        for spec_ in ([tuple(int(v) for v in shape)] + ([int(shape[0])] if shape[0] == shape[1] == shape[2] else [])):
                            r1 = tsc_parallel(px.copy(), spec_, box, nthread=2)
                            nrun[0] += 1
                            if not isinstance(r1, np.ndarray) or r1.shape != tuple(shape) or not np.array_equal(r1.astype(np.float64), want_g.astype(np.float64)):
                                chk.violation('TSC-allocated-grid', f'tsc_parallel(densgrid={spec_!r}) differs from the deposit into a supplied zero grid of that shape', dict(fn='empty', kind=kind, shape=list(shape)))
                    else:
                        g = base0.copy()
                        cic_serial(empty, g, box)
                        outs.append(('cic_serial', g))
                except Exception as e:  # noqa
                    chk.violation(f'{kind}-empty-raises', f'{kind} deposit of an empty particle set on a {shape} grid ({np.dtype(pdt).name}): {type(e).__name__}: {e}', dict(fn='empty', kind=kind, shape=list(shape)))
                    continue
                for nm, g in outs:
                    nrun[0] += 1
                    if g.shape != base0.shape or not np.array_equal(np.asarray(g, dtype=np.float64), base0):
                        chk.violation(f'{kind}-empty-changes-grid', f'{nm} with no particles changed the supplied {shape} grid', dict(fn='empty', kind=kind, shape=list(shape)))
        chk.part('S6_empty', runs=nrun[0])
    chk.add_cases(nrun[0], nontrivial=nrun[1], traces=nrun[0])
    chk.sample(dict(kind='TSC', g=4, o=0, m=6, expected_cells_x4Q2=orc.rows[('TSC', 4, 0, 6)].tolist()))
    chk.sample(dict(kind='CIC', g=3, o=0, m=12, expected_cells_xQ=orc.rows[('CIC', 3, 0, 12)].tolist()))


def replay(chk, path):
    d = json.load(open(path))
    print(json.dumps(d['payload'])[:600])
    run(chk)
