"""Boundary instantiations of every index-carrying kernel (C11).  Run by c11.py in subprocesses with
NUMBA_BOUNDSCHECK=1 (serial kernels) or NUMBA_DISABLE_JIT=1 (parallel=True kernels, interpreted: numpy raises on any index
outside [-len, len)) — mode 'bc' or 'nojit' — and in-process ('arena') for compiled kernels inside guarded arenas."""
import os
import warnings

import numpy as np


def cases(mode, scratch, thorough=False, seed=0):
    """yields (name, kernel, thunk)"""
    out = []

    def add(name, kernel, thunk, modes=('bc', 'nojit')):
        if mode in modes:
            out.append((name, kernel, thunk))

    # ------------------------------------------------------------------ util.cumsum
    from abacusnbody.util import cumsum
    for n in (0, 1, 2):
        for ini in (False, True):
            for fin in (False, True):
                L = n - 1 + ini + fin
                if L < 0:
                    continue
                add(f'cumsum-N{n}-i{int(ini)}-f{int(fin)}', 'cumsum',
                    lambda n=n, ini=ini, fin=fin, L=L: cumsum(np.arange(n, dtype=np.uint32), np.zeros(L, dtype=np.uint64), initial=ini, final=fin, offset=3))
    # ------------------------------------------------------------------ bit decoders
    from abacusnbody.data.bitpacked import unpack_rvint, unpack_pids
    for n in (0, 1, 3):
        add(f'unpack_rvint-N{n}', '_unpack_rvint', lambda n=n: unpack_rvint(np.arange(3 * n, dtype=np.int32).reshape(-1, 3), 100.0))
        add(f'unpack_rvint-N{n}-velonly', '_unpack_rvint', lambda n=n: unpack_rvint(np.arange(3 * n, dtype=np.int32).reshape(-1, 3), 100.0, posout=False))
        add(f'unpack_pids-N{n}', '_unpack_pids',
            lambda n=n: unpack_pids(np.arange(n, dtype=np.uint64), box=10.0, ppd=4, pid=True, lagr_pos=True, tagged=True, density=True, lagr_idx=True))
    from abacusnbody.data.pack9 import unpack_pack9
    hdr = [0xFF, 0x00 + (51 >> 8), 51 & 0xFF] + [0] * 6

    def p9(recs):
        return np.array(recs, dtype=np.uint8).reshape(-1, 9)
    add('pack9-empty', '_unpack_pack9', lambda: unpack_pack9(p9([]), 100.0, 10.0))
    add('pack9-header-only', '_unpack_pack9', lambda: unpack_pack9(p9([hdr]), 100.0, 10.0))
    add('pack9-header-particle', '_unpack_pack9', lambda: unpack_pack9(p9([hdr, [1] * 9]), 100.0, 10.0))
    add('pack9-all-particles-supplied', '_unpack_pack9',
        lambda: unpack_pack9(p9([hdr, [1] * 9, [2] * 9]), 100.0, 10.0, posout=np.zeros((3, 3), np.float32), velout=np.zeros((3, 3), np.float32)))
    # ------------------------------------------------------------------ subsample zipper through the catalog loader
    import catcommon as cc
    import synth_catalog as sc
    T = cc.TYPES
    zcats = {'no-particles': [[T[5]]], 'empty-slab': [[]], 'zero-orig-merged': [[T[1]]], 'away': [[T[2]]], 'mixed': [[T[0], T[2], T[1]], [], [T[3]]]}
    for nm, cat in zcats.items():
        def th(cat=cat, nm=nm):
            zd = sc.write_catalog(os.path.join(scratch, 'cat_' + nm), cat)
            for cleaned in (True, False):
                cc.load(zd, cleaned=cleaned, subsamples=dict(A=True, B=True, pos=True, vel=True, pid=True), unpack_bits=True, fields=['id', 'N'])
            cc.load(zd, cleaned=True, subsamples=dict(A=True, pos=True), fields=['id', 'N'], filter_func=lambda h: h['N'] < 0)
        add(f'zipper-{nm}', '_unpack_rv_subsamples/_unpack_pid_subsamples', th, modes=('bc',))
    # ------------------------------------------------------------------ TSC / CIC
    from abacusnbody.analysis import tsc, cic
    for shape, box in (((3, 3, 3), 6.0), ((2, 2, 2), 4.0), ((4, 3, 5), 12.0)):
        for off in (0.0, 0.5 * box / shape[0], -0.5 * box / shape[0]):
            def th(shape=shape, box=box, off=off):
                eps = np.float32(box) - np.nextafter(np.float32(box), np.float32(0))
                vals = [0.0, box - eps, box / shape[0] * 0.5, box / shape[0], box * 0.999]
                # the value BoxSize itself is what an in-place float32 wrap can produce: with a zero offset only (the documented domain is [0, box))
                if off == 0.0:
                    vals.append(box)
                pos = np.array([[a, b, c] for a in vals for b in (vals[0], vals[-1]) for c in (vals[1], vals[2])], dtype=np.float32)
                tsc._tsc_scatter(pos, np.zeros(shape, dtype=np.float32), box, offset=off)
                tsc._tsc_scatter(pos, np.zeros(shape, dtype=np.float64), box, weights=np.ones(len(pos), dtype=np.float32), offset=off)
            add(f'tsc_scatter-{shape}-off{off:+.2f}', '_tsc_scatter', th, modes=('bc',))
    for shape, box in (((3, 3, 3), 6.0), ((2, 2, 2), 4.0), ((4, 4, 1), 8.0), ((2, 3, 1), 6.0)):
        def th(shape=shape, box=box):
            vals = [0.0, np.nextafter(np.float32(box), np.float32(0)), box / shape[0] * 0.5, box * 0.75, box]
            pos = np.array([[a, b, c] for a in vals for b in vals for c in vals[:2]], dtype=np.float32)
            cic.cic_serial(pos, np.zeros(shape, dtype=np.float32), box)
            cic.cic_serial(pos, np.zeros(shape, dtype=np.float32), box, weights=np.ones(len(pos), dtype=np.float32))
        add(f'cic_serial-{shape}', 'cic_serial', th, modes=('bc',))
    for n1d, nthread, nparts in ((12, 1, 1), (12, 1, 2), (12, 1, 3), (12, 2, 4), (12, 1, 5), (9, 2, None), (3, 2, None), (2, 4, None), (12, 3, 2)):
        for npts in (0, 1, 7):
            def th(n1d=n1d, nthread=nthread, nparts=nparts, npts=npts):
                box = float(n1d)
                rng = np.random.default_rng(3)
                pos = (rng.integers(0, n1d * 4, (npts, 3)) / 4.0).astype(np.float32)
                if npts:
                    pos[0] = [0.0, box - 0.25, 0.5]
                with warnings.catch_warnings():
                    warnings.simplefilter('ignore')
                    for coord in (0, 2):
                        tsc.tsc_parallel(pos.copy(), n1d, box, nthread=nthread, npartition=nparts, coord=coord, weights=(np.ones(npts, np.float32) if npts % 2 else None))
            add(f'tsc_parallel-n{n1d}-T{nthread}-np{nparts}-N{npts}', '_tsc_parallel/partition_parallel/_wrap_inplace/_zeros_parallel', th, modes=('nojit',))
    for npts, T in ((0, 1), (0, 4), (1, 4), (3, 2), (5, 16)):
        def th(npts=npts, T=T):
            pos = np.zeros((npts, 3), dtype=np.float64)
            if npts:
                pos[:, 1] = np.linspace(0, 8.0, npts)        # includes 0 and the value BoxSize
            for sort in (False, True):
                tsc.partition_parallel(pos, 4, 8.0, weights=(np.ones(npts) if npts else None), coord=1, nthread=T, sort=sort)
        add(f'partition_parallel-N{npts}-T{T}', 'partition_parallel', th, modes=('nojit',))
    # ------------------------------------------------------------------ power spectrum kernels
    from abacusnbody.analysis import power_spectrum as ps
    L = 2 * np.pi
    for n in (2, 3, 4, 5):
        kz = n // 2 + 1
        w = np.ones((n, n, kz))
        for kedges in (np.array([0.0, 0.6]), np.array([0.5, 1.5, 9.0]), np.array([1.0, 2.0]), np.linspace(0, n, 4)):
            def th(n=n, w=w, kedges=kedges):
                for nthread in (1, 3):
                    ps.bin_kmu(n, L, kedges, np.array([0.0, 1.0]), w, dtype=np.float64, nthread=nthread)
                    ps.bin_kmu(n, L, kedges, np.linspace(0, 1, 4), w, poles=np.array([0, 2, 4]), dtype=np.float32, nthread=nthread)
                    for pimax, npi in ((0.4, 1), (1.0, 2), (float(n), 3), (2.5, 5)):
                        ps.bin_kppi(n, L, kedges, pimax, npi, w, dtype=np.float64, nthread=nthread)
            add(f'binning-n{n}-edges{kedges.tolist()}', 'bin_kmu/bin_kppi/P_n', th, modes=('nojit',))
    for nk in (2, 3, 10, 33):
        for x0, dx in ((0.1, 0.1), (0.0, 1.0 / 3), (0.01, 0.7), (1e-3, 0.013)):
            def th(nk=nk, x0=x0, dx=dx):
                for dt in (np.float32, np.float64):
                    x = (x0 + dx * np.arange(nk)).astype(dt)
                    y = np.arange(nk).astype(dt)
                    xs = [x[0], np.nextafter(x[0], dt(np.inf)), x[-1], np.nextafter(x[-1], dt(-np.inf)), x[-1] * 2, x[0] / 2, (x[0] + x[-1]) / 2]
                    xs += [np.nextafter(xk, dt(-np.inf)) for xk in x[1:]] + list(x[1:-1])
                    for xd in xs:
                        ps.linear_interp(dt(xd), x, y)
            add(f'linear_interp-k{nk}-x0{x0}-dx{dx:.3f}', 'linear_interp', th, modes=('bc',))
    for n in (2, 3, 4):
        def th(n=n):
            k_ell = np.linspace(0.5, 0.5 + 0.25 * 7, 8)              # does not reach the mesh corner; starts above the fundamental
            P_ell = np.ones((3, 8))
            ps.expand_poles_to_3d(k_ell, P_ell, n, L, np.array([0, 2, 4]))
            k2 = np.linspace(0.0, n, 5)
            ps.expand_poles_to_3d(k2, np.ones((1, 5)), n, L, np.array([0]))
            ps.get_smoothing(n, L, 1.0)
            f = (np.ones((n, n, n // 2 + 1)) + 0j).astype(np.complex64)
            ps.get_delta_mu2(f, n)
            ps.get_raw_power(f)
            ps.get_raw_power(f, f)
            ps.normalize_field(np.ones((n, n, n), dtype=np.float32), inplace=True, nthread=2)
            ps.shift_field_fft(f, f.copy(), n, L, 0.5 * L / n)
            ps._normalize(np.ones((n, n, n), dtype=np.float32), np.float32(2.0), nthread=2)
        add(f'fourier-helpers-n{n}', 'expand_poles_to_3d/get_smoothing/get_delta_mu2/get_raw_power/normalize_field/shift_field_fft/_normalize', th, modes=('nojit',))
    add('legendre-helpers', 'factorial/n_choose_k/P_n', lambda: [ps.P_n(np.float32(0.3), l) for l in (0, 2, 4, 6, 10)] + [ps.n_choose_k(5, k) for k in range(6)] + [ps.factorial(k) for k in range(5)], modes=('bc',))
    # ------------------------------------------------------------------ tidal tensor (analysis/shear.py; get_shear_nb does not compile with the installed numba: eigvals is complex)
    from abacusnbody.analysis import shear as _shear
    for N in (1, 2, 3, 4):
        def th_tidal(N=N):
            d = np.random.default_rng(2).random((N, N, N // 2 + 1)).astype(np.complex64)
            karr = np.fft.fftfreq(N, d=10.0 / (2 * np.pi * N)).astype(np.float32)
            _shear.get_tidal(d, karr, N, None)
            _shear.get_tidal(d, karr, N, 1.5)
        add(f'get_tidal-N{N}', 'get_tidal', th_tidal, modes=('bc',))
    # ------------------------------------------------------------------ HOD passes
    import hodcommon as hc
    from abacusnbody.hod import GRAND_HOD as G
    for H, npart, T in ((0, 0, 1), (0, 0, 4), (1, 0, 4), (1, 2, 1), (3, 5, 2), (3, 1, 16)):
        def th(H=H, npart=npart, T=T):
            rng = np.random.default_rng(5)
            halos = hc.make_halos(rng, H)
            halos['hrandoms'] = halos['hrandoms'] * 0.3
            parts = hc.make_particles(rng, halos, npart)
            parts['prandoms'] = parts['prandoms'] * 0.2
            for S in (['LRG', 'ELG', 'QSO'], ['ELG']):
                hc.run_hod(halos, parts, {t: dict(hc.TRACERS[t], ic=1.0) for t in S}, T, rsd=True, enable_ranks=True)
        add(f'gen_cent/gen_sats-H{H}-P{npart}-T{T}', 'gen_cent/gen_sats/fast_concatenate/wrap', th, modes=('nojit',))
    for N1, N2, T in ((0, 0, 2), (0, 3, 2), (1, 1, 2), (1, 1, 16), (5, 1, 4), (1, 40, 3)):
        add(f'fast_concatenate-{N1}-{N2}-T{T}', 'fast_concatenate', lambda N1=N1, N2=N2, T=T: G.fast_concatenate(np.arange(N1) + 0.5, np.arange(N2) - 0.5, T), modes=('nojit',))
    class _NpInt:
        """numpy stand-in for the interpreted run of getPointsOnSphere only: the kernel uses the float result of np.rint as a range()
        bound, which numba accepts and CPython does not; rint returns the same values as integers"""
        def __getattr__(self, k):
            return getattr(np, k)

        @staticmethod
        def rint(x):
            return np.rint(x).astype(np.int64)

    def sphere(npnt, T):
        old = G.np
        G.np = _NpInt()
        try:
            return G.getPointsOnSphere(npnt, T)
        finally:
            G.np = old
    for npnt, T in ((0, 1), (0, 4), (1, 1), (1, 4), (3, 4), (4, 4), (9, 4)):
        add(f'getPointsOnSphere-N{npnt}-T{T}', 'getPointsOnSphere', lambda npnt=npnt, T=T: sphere(npnt, T), modes=('nojit',))
    # ---- satellites on an NFW profile (compute_fast_NFW directly; gen_sats_nfw through gen_gal_cat with all tracers so that its profile parameters are defined)
    def th_nfw(ns, T):
        rng = np.random.default_rng(11)
        ns = np.asarray(ns, dtype=np.int64)
        H, tot = len(ns), int(ns.sum())
        rd = rng.normal(0, 1, (tot, 3))
        G.compute_fast_NFW(rng.uniform(0.05, 2.9, tot), np.arange(H, dtype=np.int64), rng.random(H), rng.random(H), rng.random(H), rng.random(H), rng.random(H), rng.random(H),
                           rng.uniform(100, 500, H), rng.uniform(3, 10, H), rng.uniform(1e12, 1e13, H), rng.uniform(0.2, 2, H), rd, ns, 1.0, 'rd_normal', T, 0.0, 1.0, 1.0)
    for ns in ([], [0], [1], [0, 2, 0], [2, 1, 3]):
        for T in (1, 4, 16):
            add(f'compute_fast_NFW-{"_".join(map(str, ns)) or "none"}-T{T}', 'compute_fast_NFW', lambda ns=ns, T=T: th_nfw(ns, T), modes=('nojit',))

    def th_gen_nfw(H, T):
        rng = np.random.default_rng(7)
        halos = hc.make_halos(rng, H)
        parts = hc.make_particles(rng, halos, 2 * H)
        tr = {t: dict(hc.TRACERS[t], f_sigv=1.0) for t in ('LRG', 'ELG', 'QSO')}
        tr['ELG'].update(exp_frac=0.1, exp_scale=1.0, nfw_rescale=1.0)
        old = G.np
        G.np = _NpInt()
        try:
            with warnings.catch_warnings():
                warnings.simplefilter('ignore')
                G.gen_gal_cat(halos, parts, tr, hc.params(), Nthread=T, enable_ranks=False, rsd=True, nfw=True, NFW_draw=rng.uniform(0.01, 2.9, 5000), write_to_disk=False, verbose=False)
        finally:
            G.np = old
    for H, T in ((0, 1), (1, 4), (3, 2), (12, 16)):
        add(f'gen_sats_nfw-H{H}-T{T}', 'gen_sats_nfw/compute_fast_NFW/getPointsOnSphere', lambda H=H, T=T: th_gen_nfw(H, T), modes=('nojit',))
    from abacusnbody.hod.abacus_hod import _searchsorted_parallel
    add('searchsorted', '_searchsorted_parallel', lambda: [_searchsorted_parallel(np.array([2, 5, 9], dtype=np.int64), np.array(b, dtype=np.int64)) for b in ([], [1], [9], [10], [2, 5, 9, 4])], modes=('nojit',))
    from abacusnbody.hod import menv
    def th_msum():
        for starts, inds in (([0], []), ([0, 2], [0, 1]), ([0, 2, 3], [0, 1, 3]), ([0, 0, 0], [])):
            menv.msum_core(np.zeros(len(starts) - 1), np.ones(4), np.array(inds, dtype=np.int64), np.array(starts, dtype=np.int64), 1, nthread=2)
    add('msum_core', 'msum_core', th_msum, modes=('nojit',))
    if thorough:
        rng = np.random.default_rng(seed)
        # random interpolation grids with lookups one ulp around every knot
        for rep in range(300):
            nk = int(rng.integers(2, 40))
            x0, dx = float(rng.uniform(0, 2)), float(10 ** rng.uniform(-3, 0.5))
            dt = [np.float32, np.float64][rep % 2]

            def th(nk=nk, x0=x0, dx=dx, dt=dt):
                x = (x0 + dx * np.arange(nk)).astype(dt)
                y = np.arange(nk).astype(dt)
                for xk in x:
                    for xd in (np.nextafter(xk, dt(-np.inf)), xk, np.nextafter(xk, dt(np.inf))):
                        ps.linear_interp(dt(xd), x, y)
            add(f'fuzz-linear_interp-{rep}', 'linear_interp', th, modes=('bc',))
        # random particles on and around the domain boundaries for the serial deposit kernels
        for rep in range(60):
            shape = tuple(int(v) for v in rng.integers(2, 7, 3))
            box = float(rng.choice([1.0, 7.0, 1000.0, 2000.0]))

            def th(shape=shape, box=box, rep=rep):
                r2 = np.random.default_rng(rep)
                n = 200
                pos = r2.uniform(0, box, (n, 3)).astype(np.float32)
                pos[:20] = np.nextafter(np.float32(box), np.float32(0))
                pos[20:40] = 0.0
                pos[40:60] = (r2.integers(0, 2 * max(shape), (20, 3)) * (box / max(shape) / 2)).astype(np.float32) % np.float32(box)
                tsc._tsc_scatter(pos, np.zeros(shape, dtype=np.float32), box, offset=float(r2.choice([0.0, 0.5 * box / shape[0]])))
                cic.cic_serial(pos, np.zeros(shape, dtype=np.float32), box)
                cic.cic_serial(pos, np.zeros((shape[0], shape[1], 1), dtype=np.float32), box)
            add(f'fuzz-deposit-{rep}', '_tsc_scatter/cic_serial', th, modes=('bc',))
        # random binning configurations (interpreted)
        for rep in range(40):
            n = int(rng.integers(2, 8))
            nb = int(rng.integers(1, 5))
            kedges = np.sort(rng.uniform(0, n, nb + 1))
            kedges[0] = float(rng.choice([0.0, kedges[0]]))

            def th(n=n, kedges=kedges, rep=rep):
                w = np.ones((n, n, n // 2 + 1))
                nmu = 1 + rep % 4
                ps.bin_kmu(n, L, kedges, np.linspace(0, 1, nmu + 1), w, poles=np.array([0, 2]), dtype=np.float64, nthread=1 + rep % 3)
                ps.bin_kppi(n, L, kedges, float(0.3 + rep % 5), 1 + rep % 4, w, dtype=np.float64, nthread=1 + rep % 3)
            add(f'fuzz-binning-{rep}', 'bin_kmu/bin_kppi', th, modes=('nojit',))
        # random partitions incl. values one ulp below BoxSize and exactly BoxSize
        for rep in range(40):
            def th(rep=rep):
                r2 = np.random.default_rng(1000 + rep)
                box = float(r2.choice([1.0, 123.0, 1000.0]))
                npart = int(r2.integers(1, 40))
                n = int(r2.integers(0, 50))
                dt = [np.float32, np.float64][rep % 2]
                pos = r2.uniform(0, box, (n, 3)).astype(dt)
                if n > 2:
                    pos[0, 0] = np.nextafter(dt(box), dt(0))
                    pos[1, 0] = box
                tsc.partition_parallel(pos, npart, box, weights=(np.ones(n, dtype=dt) if rep % 3 else None), coord=0, nthread=1 + rep % 5, sort=bool(rep % 2))
            add(f'fuzz-partition-{rep}', 'partition_parallel', th, modes=('nojit',))
        # random small HOD tables
        for rep in range(12):
            def th(rep=rep):
                r2 = np.random.default_rng(2000 + rep)
                H = int(r2.integers(0, 9))
                halos = hc.make_halos(r2, H)
                halos['hrandoms'] = halos['hrandoms'] * 0.3
                parts = hc.make_particles(r2, halos, int(r2.integers(0, 12)) if H else 0)
                hc.run_hod(halos, parts, {t: dict(hc.TRACERS[t], ic=1.0) for t in hc.ORDER[: 1 + rep % 3]}, 1 + rep % 6, rsd=bool(rep % 2), enable_ranks=bool(rep % 3))
            add(f'fuzz-hod-{rep}', 'gen_cent/gen_sats/fast_concatenate', th, modes=('nojit',))
    return out
