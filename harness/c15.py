"""C15 — pack9 streams decode one particle per record relative to its cell header.

spec/Pack9.tla (layer D: Expand / Pack nibble shuffle, header state, decode as a fold over the stream).
  TLC theorems: the nibble shuffle is a bijection on the 72 bits (Expand o Pack = id over one-field sweeps of all 4096
      values x corner patterns); one particle per non-header record
  M2  TLC emits (a) header + one particle for every value of every 12-bit field, two cell headers;
      (b) every header/particle interleaving of length <= 5 (two header kinds, two particle kinds)
  spec->code: unpack_pack9 with pos / vel / both, allocated / supplied outputs, float32 / float64; read_asdf on
      pack9 files written by the harness
"""
import itertools
import json
import os

import numpy as np

from common import relayout

from tlc import run_tlc, read_json

BOX, VELZ = 2000.0, 1100.0


def expected(out, dt):
    """spec integers -> physical units (float64 reference)"""
    if not out:
        return np.zeros((0, 3)), np.zeros((0, 3)), np.zeros(0)
    cpd = np.array([o['cpd'] for o in out], dtype=np.float64)
    pos = np.array([o['pos'] for o in out], dtype=np.float64) * (BOX / (2000.0 * cpd))[:, None]
    vel = np.array([o['vel'] for o in out], dtype=np.float64) * (VELZ * 0.0005 / cpd)[:, None]
    return pos, vel, cpd


def run_modes(chk, data, out, tag, nrun):
    from abacusnbody.data.pack9 import unpack_pack9
    n = len(out)
    for dt in (np.float32, np.float64):
        epos, evel, cpd = expected(out, dt)
        eps = 2.0 ** -23 if dt == np.float32 else 2.0 ** -52
        quantum = BOX / (2000.0 * np.maximum(cpd, 1))
        ptol = (1e-3 * quantum + 8 * eps * BOX)[:, None] if n else 0
        vtol = 8 * eps * np.abs(evel) + 1e-300
        ref = {}
        for pm, vm in itertools.product(('alloc', 'supplied', 'strided', 'exact', 'skip'), repeat=2):
            if pm == 'skip' and vm == 'skip':
                continue
            if 'exact' in (pm, vm) and (len(data) > 5000 or 'strided' in (pm, vm)):
                continue
            if 'strided' in (pm, vm) and len(data) > 5000:
                continue
            # 'strided': a preallocated output that is a non-contiguous view (columns of a wider buffer), as a caller filling a structured table would pass
            sbuf = np.full((len(data), 7), np.nan, dtype=dt)
            # 'exact': a preallocated output with one row per PARTICLE (fewer rows than records when the stream has headers)
            posout = {'alloc': None, 'supplied': np.full((len(data), 3), np.nan, dtype=dt), 'strided': sbuf[:, 0:3], 'exact': np.full((n, 3), np.nan, dtype=dt), 'skip': False}[pm]
            velout = {'alloc': None, 'supplied': np.full((len(data), 3), np.nan, dtype=dt), 'strided': sbuf[:, 4:7], 'exact': np.full((n, 3), np.nan, dtype=dt), 'skip': False}[vm]
            r = unpack_pack9(relayout(data, nrun[0]) if len(data) <= 5000 else data.copy(), BOX, VELZ, float_dtype=dt, posout=posout, velout=velout)
            nrun[0] += 1
            p = r[0] if pm == 'alloc' else (posout[:r[0]] if pm in ('supplied', 'strided', 'exact') else None)
            v = r[1] if vm == 'alloc' else (velout[:r[1]] if vm in ('supplied', 'strided', 'exact') else None)
            shape_bad = False
            for nm, a, md in (('pos', p, pm), ('vel', v, vm)):
                if a is None:
                    continue
                if not isinstance(a, np.ndarray) or a.ndim != 2 or a.shape[1] != 3 or a.dtype != dt:
                    chk.violation(f'{tag}-result-type', f'{len(data)} records with {n} particles: {nm} (mode {pm},{vm}) is {type(a).__name__} {getattr(a, "shape", a)!r} '
                                  f'{getattr(a, "dtype", "")}; expected an (N, 3) {np.dtype(dt).name} array in every output-selection mode', dict(data=data.tolist()))
                    shape_bad = True
            if shape_bad:
                return
            for nm, a in (('pos', p), ('vel', v)):
                if a is None:
                    continue
                if len(a) != n:
                    chk.violation(f'{tag}-count', f'{len(data)} records with {n} particles: {nm} has {len(a)} rows (mode {pm},{vm})', dict(data=data.tolist()))
                    return
            if pm in ('supplied', 'strided') and not np.all(np.isnan(posout[n:])):
                chk.violation(f'{tag}-writes-beyond-count', 'rows beyond the particle count were written in the supplied pos array', dict(data=data.tolist()))
            if p is not None and n:
                bad = ~(np.abs(p.astype(np.float64) - epos) <= ptol)
                if bad.any():
                    i = int(np.argwhere(bad.any(axis=1))[0][0])
                    chk.violation(f'{tag}-pos', f'particle {i}: pos {p[i].tolist()} != {epos[i].tolist()} (cpd={cpd[i]}, {np.dtype(dt).name}, mode {pm},{vm}); spec integers {out[i]["pos"]}',
                                  dict(data=data.tolist(), i=i))
                ref.setdefault('p', []).append(p.copy())
            if v is not None and n:
                bad = ~(np.abs(v.astype(np.float64) - evel) <= vtol)
                if bad.any():
                    i = int(np.argwhere(bad.any(axis=1))[0][0])
                    chk.violation(f'{tag}-vel', f'particle {i}: vel {v[i].tolist()} != {evel[i].tolist()} ({np.dtype(dt).name}, mode {pm},{vm}); spec integers {out[i]["vel"]}',
                                  dict(data=data.tolist(), i=i))
                ref.setdefault('v', []).append(v.copy())
        for k, arrs in ref.items():
            for a in arrs[1:]:
                if not np.array_equal(a, arrs[0]):
                    chk.violation(f'{tag}-mode-dependence', f'{k} differs between output-selection modes', dict(data=data.tolist()))


def run(chk):
    chk.cov['rule'] = ('records: every value of each of the six 12-bit fields x corner patterns of the other fields x two cell headers; streams: every '
                       'header/particle interleaving of length <= 5 starting with a header; non-trivial = stream with at least one particle; distinct by byte stream')
    chk.assumptions += ['positions within 1e-3 quantum + 8 ulp(BoxSize) of the integer decode x BoxSize/(2000 cpd); velocities within 8 ulp',
                        'a stream starts with a header (particles before any header have no defined cell)']
    cf = os.path.join(chk.scratch, 'cases.json')
    text = ('---- MODULE MC_Pack9 ----\nEXTENDS Pack9\nVARIABLE v\nASSUME NibbleBijection\nASSUME CountTheorem(4)\nASSUME Emit(4)\n'
            "Init == v = 0\nNext == v' = v\n====\n")
    run_tlc(chk, 'MC_Pack9', module_text=text, cfg_text='INIT Init\nNEXT Next\n', env={'CASES_OUT': cf}, timeout=900)
    cases = read_json(cf)
    ns, nst = len(cases['single']), len(cases['streams'])
    chk.cov['states'] += ns + nst
    chk.cov['transitions'] += ns + nst
    chk.part('M2', single_record_cases=ns, stream_cases=nst, theorems='NibbleBijection, CountTheorem hold')
    nrun = [0]
    # (a) the single cases are batched per header into one long stream: header, p1, p2, ... (one call decodes thousands of records)
    by_header = {}
    for c in cases['single']:
        by_header.setdefault(tuple(c['stream'][0]), []).append(c)
    for h, cs in by_header.items():
        data = np.array([list(h)] + [c['stream'][1] for c in cs], dtype=np.uint8)
        out = [c['out'][0] for c in cs]
        run_modes(chk, data, out, 'fields', nrun)
        # and a shuffled order with the header repeated in between (state must persist / be re-read)
        idx = np.random.default_rng(chk.seed).permutation(len(cs))
        recs, outs = [list(h)], []
        for k, i in enumerate(idx):
            if k % 97 == 0:
                recs.append(list(h))
            recs.append(cs[i]['stream'][1])
            outs.append(cs[i]['out'][0])
        run_modes(chk, np.array(recs, dtype=np.uint8), outs, 'fields-shuffled', nrun)
    chk.part('field_sweeps', records=ns, calls=nrun[0])
    # (b) interleavings
    for c in cases['streams']:
        run_modes(chk, np.array(c['stream'], dtype=np.uint8).reshape(-1, 9), c['out'], 'stream', nrun)
    # empty stream
    run_modes(chk, np.zeros((0, 9), dtype=np.uint8), [], 'empty', nrun)
    chk.part('interleavings', streams=nst, calls=nrun[0])
    chk.sample(dict(stream=cases['streams'][min(40, nst - 1)]['stream'], expected=cases['streams'][min(40, nst - 1)]['out']))
    chk.sample(dict(single=cases['single'][1234]))
    # (c) through read_asdf on harness-written pack9 files
    import asdf
    from abacusnbody.data.read_abacus import read_asdf
    nf = 0
    for c in cases['streams'][:: max(1, nst // (25 if chk.quick else 200))]:
        data = np.array(c['stream'], dtype=np.uint8).reshape(-1, 9)
        fn = os.path.join(chk.scratch, f'p9_{nf}.asdf')
        asdf.AsdfFile({'header': {'BoxSize': BOX, 'VelZSpace_to_kms': VELZ}, 'data': {'pack9': data}}).write_to(fn)
        for dt in (np.float32, np.float64):
            epos, evel, cpd = expected(c['out'], dt)
            # every column selection: the row count is the number of particle records whichever columns are asked for
            for load in (None, ('pos', 'vel'), ('pos',), ('vel',)):
                t = read_asdf(fn, dtype=dt, verbose=False, **({} if load is None else dict(load=load)))
                nf += 1
                cols = {'pos', 'vel'} if load is None else set(load)
                if len(t) != len(c['out']) or set(t.colnames) != cols:
                    chk.violation('read_asdf-pack9-shape', f'read_asdf(load={load}) on pack9 stream: {len(t)} rows / columns {t.colnames}; expected {len(c["out"])} rows of {sorted(cols)}', dict(stream=c['stream']))
                    continue
                if len(t) and 'pos' in cols and not np.allclose(t['pos'], epos, rtol=0, atol=2e-3):
                    chk.violation('read_asdf-pack9-values', f'read_asdf(load={load}) on pack9 stream: positions differ from the direct decode', dict(stream=c['stream']))
                if len(t) and 'vel' in cols and not np.allclose(t['vel'], evel, rtol=1e-5, atol=1e-9):
                    chk.violation('read_asdf-pack9-values', f'read_asdf(load={load}) on pack9 stream: velocities differ from the direct decode', dict(stream=c['stream']))
    chk.part('read_asdf_pack9', loads=nf)
    chk.add_cases(ns + nst + nf, nontrivial=ns + nst - 1 + nf, traces=ns + nst + nf)


def replay(chk, path):
    d = json.load(open(path))
    print(d['what'])
    run(chk)
