"""C10 — the galaxy catalogue is identical for every thread count.

spec/TwoPass.tla.
  M1  TLC: T workers filling per-class output slots from private prefix offsets, every interleaving, every classification of
      <= MaxH hosts: blocks partition the hosts, no slot written twice, every offset in bounds, result = hosts in index order
      (controls: a counter shared between threads; offsets from the wrong class's counts)
      + arithmetic theorems: the block formula rint(linspace) partitions 0..H for all (H, T); fast_concatenate's proportional
      thread split copies every output index exactly once for all (N1, N2, T)
  spec->code: gen_gal_cat with Nthread = 1..16 on TLC-relevant table sizes (0, 1, 2, fewer than threads, not divisible, primes) x
      tracer subsets: every column, the row order and Ncent bit-identical to Nthread = 1; fast_concatenate against numpy for all
      small (N1, N2, T); schedule replay of fast_concatenate's and gen_cent's real source with sentinel-filled outputs
"""
import itertools
import json
import os

import numpy as np

import hodcommon as hc
from tlc import run_tlc

INVS = ['BlocksPartition', 'InBounds', 'NoDoubleWrite', 'RefinesD']


def cfg(maxh, t, k, mut='none'):
    return f'CONSTANTS\n  MaxH = {maxh}\n  T = {t}\n  K = {k}\n  Mut = "{mut}"\nSPECIFICATION Spec\n' + ''.join(f'INVARIANT {i}\n' for i in INVS)


def same(a, b):
    if set(a) != set(b):
        return f'tracer sets differ: {sorted(a)} vs {sorted(b)}'
    for t in a:
        if set(a[t]) != set(b[t]):
            return f'{t}: column sets differ'
        for k in a[t]:
            x, y = a[t][k], b[t][k]
            if k == 'Ncent':
                if x != y:
                    return f'{t}: Ncent {x} vs {y}'
                continue
            x, y = np.asarray(x), np.asarray(y)
            if x.shape != y.shape or x.dtype != y.dtype or not np.array_equal(x, y, equal_nan=True):
                n = min(len(x), len(y))
                i = int(np.argmax(x[:n] != y[:n])) if n and np.any(x[:n] != y[:n]) else n
                return f'{t}: column {k} differs (lengths {len(x)} vs {len(y)}, first difference at row {i})'
    return None


def run(chk):
    from abacusnbody.hod.GRAND_HOD import fast_concatenate, gen_cent
    rng = np.random.default_rng(chk.seed)
    chk.cov['rule'] = ('host-table sizes {0,1,2,3,5,7,15,16,17,31,33,64,101} (halos) x particle tables x tracer subsets x Nthread 1..16; '
                       'non-trivial = run with more than one thread on a non-empty table; distinct by (sizes, tracer subset, options, thread count)')
    chk.assumptions += ['random numbers are inputs (stored in the tables), so every run of a configuration sees the same numbers',
                        'compiled runs do not force interleavings; forced schedules run the interpreted kernel source']
    text = '---- MODULE MC_TwoPass ----\nEXTENDS TwoPass\nASSUME ConcatTheorem(%d, 16) /\\ BlockTheorem(%d, 32)\n====\n' % ((24, 80) if chk.quick else (48, 300))
    for (mh, t, k) in ([(5, 3, 2), (4, 2, 3)] if chk.quick else [(6, 3, 2), (5, 4, 2), (5, 3, 3)]):
        r = run_tlc(chk, 'MC_TwoPass', module_text=text, cfg_text=cfg(mh, t, k), timeout=3000)
        chk.part(f'M1_H{mh}_T{t}_K{k}', states=r['distinct'], generated=r['generated'])
    for mut in ('sharedcounter', 'wrongprefix'):
        r = run_tlc(chk, 'MC_TwoPass', module_text='---- MODULE MC_TwoPass ----\nEXTENDS TwoPass\n====\n', cfg_text=cfg(5, 3, 2, mut), expect_violation=True, record=False, timeout=600)
        if r['outcome'] == 'ok':
            raise RuntimeError(f'positive control {mut} not rejected')
        chk.part('control_' + mut, outcome=r['outcome'], violated=r.get('violated'))
    # ---- gen_gal_cat for every thread count
    sizes = [0, 1, 2, 3, 5, 7, 15, 16, 17, 31, 33, 64, 101]
    if chk.quick:
        sizes = [0, 1, 2, 5, 15, 17, 33, 101]
    subsets = [['LRG', 'ELG', 'QSO'], ['LRG'], ['ELG', 'QSO'], ['QSO']] if chk.quick else [list(s) for r in (1, 2, 3) for s in itertools.combinations(hc.ORDER, r)]
    nrun = nontriv = 0
    for si, H in enumerate(sizes):
        for ti, S in enumerate(subsets):
            if chk.quick and (si + ti) % 2:
                continue
            tracers = {t: dict(hc.TRACERS[t], ic=1.0) for t in S}
            halos = hc.make_halos(rng, H)
            # boost the selection rate so that every thread block holds galaxies of several tracers
            halos['hrandoms'] = halos['hrandoms'] * 0.6
            npart = [0, 1, 3, 50, 257][(si + ti) % 5] if H else 0
            parts = hc.make_particles(rng, halos, npart)
            parts['prandoms'] = parts['prandoms'] * 0.3
            rsd = bool((si + ti) % 2)
            origin = None if (si + ti) % 3 else np.array([-3000.0, 0.0, 0.0])
            ranks = bool(si % 2)
            desc = f'H={H} halos, {npart} particles, tracers={S} rsd={rsd} origin={"lc" if origin is not None else "box"} ranks={ranks}'
            try:
                ref = hc.run_hod(halos, parts, tracers, 1, rsd=rsd, origin=origin, enable_ranks=ranks)
            except Exception as e:  # noqa
                chk.violation(f'raises-T1-{"empty" if H == 0 else "nonempty"}', f'{desc} Nthread=1: {type(e).__name__}: {e}', dict(H=H, S=S))
                continue
            nrun += 1
            for T in range(2, 17):
                try:
                    out = hc.run_hod(halos, parts, tracers, T, rsd=rsd, origin=origin, enable_ranks=ranks)
                except Exception as e:  # noqa
                    chk.violation(f'raises-{"T>H" if T > H else "T<=H"}', f'{desc} Nthread={T}: {type(e).__name__}: {e}', dict(H=H, S=S, T=T))
                    continue
                nrun += 1
                nontriv += 1 if H else 0
                bad = same(ref, out)
                if bad:
                    chk.violation(f'thread-dependence-{"T>H" if T > H else ("divisible" if H % T == 0 else "ragged")}',
                                  f'{desc}: Nthread={T} differs from Nthread=1: {bad}', dict(H=H, S=S, T=T, seed=chk.seed))
            if H >= 5 and len(chk.cov['samples']) < 2:
                chk.sample(dict(H=H, particles=npart, tracers=S, ngal={t: len(ref[t]['x']) for t in S}, ncent={t: int(ref[t]['Ncent']) for t in S}))
    chk.part('gen_gal_cat_threads', runs=nrun)
    # ---- block-boundary sweep: EVERY host-table and particle-table size up to 130 (quick) / 520 (thorough) with thread counts that do not divide them,
    #      nearly every host / particle selected, so that a block boundary that loses or duplicates a row shows as a missing / extra galaxy
    nsweep = 0
    rs = np.random.default_rng(chk.seed + 99)
    top = 130 if chk.quick else 520
    halos_all = hc.make_halos(rs, top)
    halos_all['hmass'][:] = 10 ** 14.4
    halos_all['hrandoms'][:] = rs.random(top) * 0.05
    parts_all_ = hc.make_particles(rs, halos_all, top, hosts=rs.integers(0, 3, top))
    parts_all_['prandoms'][:] = rs.random(top) * 1e-3
    parts_all_['pweights'][:] = 1.0
    trs = {'LRG': dict(hc.LRG, ic=1.0, logM1=12.0, logM_cut=12.0), 'QSO': dict(hc.QSO, ic=1.0)}
    for size in range(1, top + 1, 1 if chk.quick else 3):
        Hh = {k_: v_[:size].copy() for k_, v_ in halos_all.items()}
        Pp = {k_: v_[:size].copy() for k_, v_ in parts_all_.items()}
        Pp['pinds'] = np.minimum(Pp['pinds'], size - 1)
        for kk in ('phvel', 'phmass', 'phid', 'pdeltac', 'pfenv', 'pshear'):
            Pp[kk] = {'phvel': Hh['hvel'], 'phmass': Hh['hmass'], 'phid': Hh['hid'], 'pdeltac': Hh['hdeltac'], 'pfenv': Hh['hfenv'], 'pshear': Hh['hshear']}[kk][Pp['pinds']]
        ref1 = hc.run_hod(Hh, Pp, trs, 1, rsd=False)
        for T in ((7, 11, 13) if size % 2 else (14, 15, 3)):
            o = hc.run_hod(Hh, Pp, trs, T, rsd=False)
            nsweep += 1
            diff_ = same(ref1, o)
            if diff_:
                chk.violation('block-boundary-sweep', f'{size} hosts and {size} particles, Nthread={T}: {diff_}; the catalogue differs from the single-thread catalogue '
                              f'({ {t_: (int(o[t_]["Ncent"]), len(o[t_]["x"])) for t_ in trs} } vs { {t_: (int(ref1[t_]["Ncent"]), len(ref1[t_]["x"])) for t_ in trs} } (Ncent, rows))', dict(H=size, T=T))
                break
    chk.part('block_boundary_sweep', runs=nsweep)
    nrun += nsweep
    # ---- fast_concatenate against numpy
    nfc = 0
    for N1 in range(0, 12 if chk.quick else 30):
        for N2 in range(0, 12 if chk.quick else 30):
            a = np.arange(N1, dtype=np.float64) + 0.5
            b = -np.arange(N2, dtype=np.float64) - 0.25
            for T in (1, 2, 3, 4, 7, 16):
                got = fast_concatenate(a, b, T)
                nfc += 1
                if not np.array_equal(got, np.concatenate([a, b])):
                    chk.violation(f'fast_concatenate-{"T>N" if T > N1 + N2 else "general"}', f'fast_concatenate(N1={N1}, N2={N2}, Nthread={T}) != concatenation: {got.tolist()}', dict(N1=N1, N2=N2, T=T))
    chk.part('fast_concatenate', runs=nfc)
    # ---- schedule replay on the real source
    import sched
    nsch = 0

    class NumbaStub:
        @staticmethod
        def set_num_threads(n):
            pass

        @staticmethod
        def prange(n):
            return range(n)
    for (N1, N2, T) in [(3, 2, 2), (1, 4, 3), (5, 5, 4), (2, 7, 3)]:
        a = np.arange(N1, dtype=np.float64) + 0.5
        b = -np.arange(N2, dtype=np.float64) - 0.25

        def build(sc, hook, a=a, b=b, T=T):
            def share(x, nm):
                if isinstance(x, np.ndarray) and not isinstance(x, sched.Shared):
                    x[...] = np.nan                      # sentinel: an unwritten slot stays NaN
                    return sched.Shared(x, nm, sc)
                return x
            fn = sched.threaded_source(fast_concatenate, sc, share=['final_array'], overrides={'numba': NumbaStub()})
            fn.__globals__['__par'] = hook(sc.par)
            fn.__globals__['__share'] = share
            return lambda: sched.unwrap(fn(a, b, T))

        def check(res, a=a, b=b):
            return None if np.array_equal(res, np.concatenate([a, b])) else f'result {np.asarray(res).tolist()} != concatenation'
        r = sched.explore(build, check, max_schedules=6, seed=chk.seed)
        nsch += r['schedules']
        if r['problem']:
            chk.violation('schedule-fast_concatenate', f'fast_concatenate N1={N1} N2={N2} Nthread={T}: {r["problem"]}', dict(N1=N1, N2=N2, T=T))
    # gen_cent: the real two-pass source with every internally allocated array shared; outputs start as NaN / -1 sentinels
    import hodcommon as hc2
    shared_names = ['Nout', 'keep', 'gstart'] + [f'{t}_{c}' for t in ('lrg', 'elg', 'qso') for c in ('x', 'y', 'z', 'vx', 'vy', 'vz', 'mass', 'id')]
    for (Hh, Tt, origin_) in ([(7, 3, None), (6, 2, np.array([-3000.0, 10.0, 20.0]))] if chk.quick else [(7, 3, None), (6, 2, np.array([-3000.0, 10.0, 20.0])), (5, 2, None), (9, 4, np.array([-2500.0, -40.0, 7.0])), (3, 5, None)]):
        halos = hc2.make_halos(np.random.default_rng(chk.seed + Hh), Hh)
        halos['hrandoms'] = halos['hrandoms'] * 0.5
        import numba as nb
        from numba.typed import Dict as NDict

        def tdict(d):
            out = NDict.empty(key_type=nb.types.unicode_type, value_type=nb.types.float64)
            for k2, v2 in d.items():
                out[k2] = float(v2)
            for k2 in ('Acent', 'Asat', 'Bcent', 'Bsat', 'Ccent', 'Csat', 'ic'):
                if k2 not in out:
                    out[k2] = 1.0 if k2 == 'ic' else 0.0
            return out
        L, E, Qd = tdict(dict(hc2.LRG, ic=1.0)), tdict(dict(hc2.ELG, ic=1.0)), tdict(dict(hc2.QSO, ic=1.0))
        args = lambda: (halos['hpos'].copy(), halos['hvel'].copy(), halos['hmass'].copy(), halos['hid'].copy(), halos['hmultis'].copy(), halos['hrandoms'].copy(),
                        halos['hveldev'].copy(), halos['hdeltac'].copy(), halos['hfenv'].copy(), halos['hshear'].copy(), L, E, Qd, True, 1.0 / hc2.VELZ2KMS, hc2.LBOX, True, True, True, Tt, origin_)
        try:
            refc = gen_cent(*args())
            refv = {t: {k2: np.asarray(v2) for k2, v2 in refc[i].items()} for i, t in enumerate(('LRG', 'ELG', 'QSO'))}
            refid = {k2: np.asarray(v2) for k2, v2 in refc[3].items()}

            def build(sc, hook):
                def share(x, nm):
                    if isinstance(x, np.ndarray) and not isinstance(x, sched.Shared):
                        if nm in shared_names and nm not in ('Nout', 'gstart'):
                            x[...] = -7 if x.dtype.kind in 'iu' else np.nan
                        return sched.Shared(x, nm, sc)
                    return x
                class PyDict:
                    """numba.typed.Dict stand-in for the interpreted run (a typed dict cannot hold the shared-array proxies)"""
                    @staticmethod
                    def empty(key_type=None, value_type=None):
                        return {}
                fn = sched.threaded_source(gen_cent, sc, share='*', overrides={'numba': NumbaStub(), 'Dict': PyDict})
                fn.__globals__['__par'] = hook(sc.par)
                fn.__globals__['__share'] = share
                return lambda: fn(*args())

            def check(res):
                for i, t in enumerate(('LRG', 'ELG', 'QSO')):
                    for k2 in refv[t]:
                        got = sched.unwrap(res[i][k2]) if not isinstance(res[i][k2], np.ndarray) else res[i][k2]
                        if not np.allclose(np.asarray(got), refv[t][k2], rtol=1e-12, atol=0, equal_nan=False):
                            return f'{t} column {k2} = {np.asarray(got).tolist()} differs from the compiled single result {refv[t][k2].tolist()}'
                    if not np.array_equal(np.asarray(sched.unwrap(res[3][t])), refid[t]):
                        return f'{t} ids differ'
                return None
            r = sched.explore(build, check, max_schedules=8, seed=chk.seed, random_schedules=2)
            nsch += r['schedules']
            if r['problem']:
                chk.violation('schedule-gen_cent' + ('-lightcone' if origin_ is not None else ''), f'gen_cent H={Hh} Nthread={Tt} origin={None if origin_ is None else origin_.tolist()}: {r["problem"]}', dict(H=Hh, T=Tt))
        except Exception as e:  # noqa
            chk.note(f'gen_cent schedule replay not available: {type(e).__name__}: {str(e)[:200]}')
    # gen_sats: the same replay on the satellite pass (box and light-cone observers)
    try:
        from abacusnbody.hod.GRAND_HOD import gen_sats
        import re as _re
        for (Pn, Tt, origin_) in ([(8, 2, np.array([-3000.0, 10.0, 20.0])), (7, 3, None)] if chk.quick else [(8, 2, np.array([-3000.0, 10.0, 20.0])), (7, 3, None), (9, 4, np.array([-2500.0, -40.0, 7.0])), (5, 2, None)]):
            rs = np.random.default_rng(chk.seed + Pn)
            halos = hc2.make_halos(rs, 4)
            parts = hc2.make_particles(rs, halos, Pn)
            parts['prandoms'] = parts['prandoms'] * 0.3
            L, E, Qd = tdict(dict(hc2.LRG, ic=1.0)), tdict(dict(hc2.ELG, ic=1.0)), tdict(dict(hc2.QSO, ic=1.0))
            keepc = (np.arange(Pn) % 3).astype(np.int64)
            sargs = lambda: (parts['ppos'].copy(), parts['pvel'].copy(), parts['phvel'].copy(), parts['phmass'].copy(), parts['phid'].copy(), parts['pweights'].copy(), parts['prandoms'].copy(),
                             parts['pdeltac'].copy(), parts['pfenv'].copy(), parts['pshear'].copy(), True, parts['pranks'].copy(), parts['pranksv'].copy(), parts['pranksp'].copy(),
                             parts['pranksr'].copy(), parts['pranksc'].copy(), L, E, Qd, True, 1.0 / hc2.VELZ2KMS, hc2.LBOX, 2.0e9, True, True, True, Tt, origin_, keepc.copy())
            refs = gen_sats(*sargs())
            refsv = [{k2: np.asarray(v2) for k2, v2 in d.items()} for d in refs]

            def build_s(sc, hook):
                def share(x, nm):
                    if isinstance(x, np.ndarray) and not isinstance(x, sched.Shared):
                        if _re.match(r'^(lrg|elg|qso)_', nm):
                            x[...] = -7 if x.dtype.kind in 'iu' else np.nan
                        return sched.Shared(x, nm, sc)
                    return x

                class PyDict:
                    @staticmethod
                    def empty(key_type=None, value_type=None):
                        return {}
                fn = sched.threaded_source(gen_sats, sc, share='*', overrides={'numba': NumbaStub(), 'Dict': PyDict})
                fn.__globals__['__par'] = hook(sc.par)
                fn.__globals__['__share'] = share
                return lambda: fn(*sargs())

            def check_s(res):
                for i in range(len(refsv)):
                    for k2 in refsv[i]:
                        got = np.asarray(sched.unwrap(res[i][k2]))
                        if got.shape != refsv[i][k2].shape or not np.allclose(got, refsv[i][k2], rtol=1e-12, atol=0, equal_nan=False):
                            return f'output {i} column {k2} = {got.tolist()} differs from the compiled result {refsv[i][k2].tolist()}'
                return None
            r = sched.explore(build_s, check_s, max_schedules=8, seed=chk.seed, random_schedules=2)
            nsch += r['schedules']
            if r['problem']:
                chk.violation('schedule-gen_sats' + ('-lightcone' if origin_ is not None else ''), f'gen_sats P={Pn} Nthread={Tt} origin={None if origin_ is None else origin_.tolist()}: {r["problem"]}', dict(P=Pn, T=Tt))
    except Exception as e:  # noqa
        chk.note(f'gen_sats schedule replay not available: {type(e).__name__}: {str(e)[:200]}')
    chk.part('schedule_replay', schedules=nsch)
    chk.add_cases(nrun + nfc + nsch, nontrivial=nontriv + nfc, traces=nrun + nfc + nsch)
    # ---- the parallel host lookup of particles (staging): identical to the serial lookup for every thread count, for particle host ids
    #      in any order (slab files are sorted internally only) and ids between / beyond the halo ids
    try:
        import numba
        from abacusnbody.hod.abacus_hod import _searchsorted_parallel
        nss = 0
        nt0 = numba.get_num_threads()
        for rep in range(40 if chk.quick else 400):
            H = int(rng.choice([0, 1, 2, 7, 50, 333]))
            hid = np.sort(rng.choice(np.arange(5 * H + 5), H, replace=False)).astype(np.int64)
            n = int(rng.choice([0, 1, 2, 5, 17, 100, 1001, 6000]))
            kind = rep % 4
            phid = rng.choice(hid, n) if (H and kind != 3) else rng.integers(-3, 5 * H + 8, n)
            if kind == 0:
                phid = np.sort(phid)
            elif kind == 1 and n:                                   # sorted within each of three slabs only
                cuts = np.sort(rng.integers(0, n + 1, 2))
                phid = np.concatenate([np.sort(x) for x in np.split(phid, cuts)])
            phid = np.asarray(phid, dtype=np.int64)
            want = np.searchsorted(hid, phid)
            for t in ((1, 2, 3, 5, 7, 16) if rep % 5 == 0 else (1 + rep % 16,)):
                numba.set_num_threads(min(t, nt0))
                got = _searchsorted_parallel(hid, phid)
                nss += 1
                if got.dtype != np.int64 or not np.array_equal(got, want):
                    bad = int(np.argmax(got != want)) if len(got) == len(want) else -1
                    chk.violation(f'searchsorted-threads-{"sorted" if kind == 0 else "unsorted"}', f'_searchsorted_parallel with {t} threads: {len(hid)} halos, {n} particle host ids '
                                  f'({["sorted", "sorted per slab", "random order", "ids between the halo ids"][kind]}): result differs from the serial lookup (first at particle {bad})',
                                  dict(kind='searchsorted', hid=hid.tolist(), phid=phid.tolist()[:200], t=t))
                    break
        numba.set_num_threads(nt0)
        chk.part('searchsorted_parallel', runs=nss)
        chk.add_cases(nss, nontrivial=nss, traces=nss)
    except Exception as e:  # noqa
        chk.violation(f'searchsorted-raises-{type(e).__name__}', f'_searchsorted_parallel: {type(e).__name__}: {e}', {})
    # ---- extended coverage (beyond C10): the AbacusHOD object across many calls — spec/HodSession.tla
    try:
        import hodsession
        hodsession.run(chk)
    except Exception as e:  # noqa
        chk.extended('AbacusHOD session: run_hod output depends on (random epoch, tracers, rsd) only; gal_reader returns the last write; compute_ngal is pure',
                     False, f'not evaluated: {type(e).__name__}: {str(e)[:300]}')


def replay(chk, path):
    d = json.load(open(path))
    print(d['what'])
    run(chk)
