"""C14 — Blosc block decompression is independent of how the stream is chunked.

spec/BloscStream.tla (layers D, A, writer), spec/BloscTrace.tla (layer T).
  M1  exhaustive: every chunking (path of Deliver/Step) of several frame sets, invariants
      NoBad/OutPrefix/SizeOK/PartialOK/BufOK/Accounting/FinalOK
  M1' positive controls: broken variants of A (fill past the frame, size not reset, 3-byte partial)
      must be rejected by TLC
  M2  TLC enumerates every chunking (+ one empty chunk anywhere) of small streams with the
      chunk-boundary observations of A -> replayed on the real decompress (bytes, length, untouched
      tail, hook events)
  M3  random chunkings of larger streams built by the real compress(): hook traces validated by TLC
  writer: TLC-enumerated (n, itemsize, cbs) -> frame structure of the real compress(); round trip
"""
import itertools
import json
import os
import random
import struct

import numpy as np

from tlc import run_tlc, read_json, tla_seq

INVS = ['TypeOK', 'NoBad', 'OutPrefix', 'SizeOK', 'PartialOK', 'BufOK', 'Accounting', 'FinalOK']


def mc_module(name, frames, m2):
    body = [f'---- MODULE {name} ----', 'EXTENDS BloscStream', f'MCFrames == {tla_seq(list(frames))}']
    if m2:
        body += ['ASSUME DChunkTheorem(Total)', 'ASSUME EmitChunkings(Total)']
    body += ['ASSUME WriterTheorem(9, {1, 2, 4, 8}, {1, 2, 3, 4, 8, 12, 16, 40})', '====']
    return '\n'.join(body) + '\n'


def cfg(mut='none', invs=INVS):
    return ('CONSTANTS\n  P = 4\n  MaxEmpty = 2\n  Mut = "%s"\n  Frames <- MCFrames\nSPECIFICATION Spec\n' % mut
            + ''.join(f'INVARIANT {i}\n' for i in invs) + 'PROPERTY Progress\n')


def build_stream(frames, rng):
    """frame of compressed length L = shim marker + (L-1) raw bytes; returns stream, expected bytes, decoded sizes"""
    import blosc
    stream, exp, dec = b'', b'', []
    for L in frames:
        raw = bytes(rng.randrange(256) for _ in range(L - 1))
        comp = blosc.compress(raw)
        assert len(comp) == L
        stream += struct.pack('!I', L) + comp
        exp += raw
        dec.append(L - 1)
    return stream, exp, dec


def cut(stream, chunks):
    out, p = [], 0
    for n in chunks:
        out.append(stream[p:p + n])
        p += n
    assert p == len(stream)
    return out


TAIL = 8


def run_decompress(stream, chunks, nexp, kind=0):
    """runs the real decompress; returns (ret, outbytes, tail_ok, events, error)"""
    from abacusnbody import _verif_trace
    from abacusnbody.data.asdf import BloscCompressor
    buf = bytearray(b'\xee' * (nexp + TAIL))
    pieces = cut(stream, chunks)
    if kind == 1:
        pieces = [bytearray(p) for p in pieces]
    elif kind == 2:
        pieces = [np.frombuffer(p, dtype=np.uint8) for p in pieces]
    ev = []
    _verif_trace.sink = ev
    try:
        ret = BloscCompressor().decompress(iter(pieces), memoryview(buf))
        err = None
    except Exception as e:  # noqa
        ret, err = None, f'{type(e).__name__}: {e}'
    finally:
        _verif_trace.sink = None
    ev = [{k: e[k] for k in ('size', 'npartial', 'hasbuf', 'pos', 'bytesout')} for e in ev if e['event'] == 'blosc_chunk']
    return ret, bytes(buf[:nexp]), bytes(buf[nexp:]) == b'\xee' * TAIL, ev, err


def judge(chk, frames, chunks, stream, exp, dec, obs=None, kind=0):
    ret, got, tail_ok, ev, err = run_decompress(stream, chunks, len(exp), kind)
    fk = 'x'.join(map(str, frames))
    payload = dict(frames=list(frames), chunks=list(chunks), stream=stream.hex())
    cls = chunk_class(frames, chunks)
    if err:
        chk.violation(f'decompress-raises-{cls}', f'frames {frames} chunks {chunks}: {err}', payload)
        return ev
    if ret != len(exp):
        chk.violation(f'decompress-length-{cls}', f'frames {frames} chunks {chunks}: returned {ret}, expected {len(exp)}', payload)
    elif got != exp:
        chk.violation(f'decompress-bytes-{cls}', f'frames {frames} chunks {chunks}: output bytes differ from payload', payload)
    if not tail_ok:
        chk.violation(f'decompress-tail-{cls}', f'frames {frames} chunks {chunks}: bytes beyond the decoded length were written', payload)
    if obs is not None and ev:
        cum = [0] + list(itertools.accumulate(dec))
        want = [dict(size=o['size'], npartial=o['npartial'], hasbuf=o['hasbuf'], pos=o['pos'], bytesout=cum[o['nout']]) for o in obs]
        if ev != want:
            chk.drift += 1
    return ev


def chunk_class(frames, chunks):
    """coarse class of a chunking for violation keys: where the first cut falls"""
    bounds = []
    p = 0
    for L in frames:
        bounds.append((p, p + 4, p + 4 + L))
        p += 4 + L
    cuts = list(itertools.accumulate(chunks))[:-1]
    kinds = set()
    for c in cuts:
        for a, b, e in bounds:
            if a < c < b:
                kinds.add('inprefix')
            elif b < c < e:
                kinds.add('inframe')
            elif c == b:
                kinds.add('afterprefix')
    if 0 in chunks:
        kinds.add('empty')
    return '+'.join(sorted(kinds)) or 'aligned'


def run(chk):
    from abacusnbody.data.asdf import BloscCompressor
    rng = random.Random(chk.seed)
    chk.drift = 0
    chk.cov['rule'] = ('chunkings of compressed streams: exhaustive (TLC-enumerated compositions + one empty chunk) for streams <=12 bytes, '
                       'random for longer ones; each replayed on the real BloscCompressor.decompress; non-trivial = at least one cut not on a frame boundary; '
                       'distinct by (frame set, chunk sequence)')
    chk.assumptions += ['blosc codec replaced by a shim (marker byte + raw bytes): framing/reassembly verified, codec trusted',
                        'TLC 1.8; transcription of the decompress loop in BloscStream.tla (layer A) — bound by hook traces',
                        'blsc ASDF files are produced by rewriting the blocks of an uncompressed file with the repository\'s compress (asdf 5.4 cannot write them itself)']
    m1_sets = [(1,), (2,), (1, 1), (1, 3), (3, 1, 2), (5,), (2, 2, 2, 2)]
    m2_sets = [(1,), (3,), (1, 2), (2, 1), (1, 1), (6,)]
    if not chk.quick:
        m1_sets += [(1, 1, 1, 1, 1), (7, 1), (4, 4, 4), (2, 5, 1, 3)]
        m2_sets += [(8,), (1, 3), (4,)]
    # M1
    for fr in m1_sets:
        name = 'MC_Blosc_' + '_'.join(map(str, fr))
        res = run_tlc(chk, name, module_text=mc_module(name, fr, False), cfg_text=cfg(), timeout=900)
        chk.part('M1_' + 'x'.join(map(str, fr)), states=res['distinct'], generated=res['generated'], depth=res['depth'])
    # positive controls
    for mut, fr in (('fillpast', (1, 3)), ('noreset', (3, 1, 2)), ('partial3', (1, 3))):
        name = f'MC_BloscMut_{mut}'
        res = run_tlc(chk, name, module_text=mc_module(name, fr, False), cfg_text=cfg(mut), expect_violation=True, record=False, timeout=300)
        if res['outcome'] == 'ok':
            raise RuntimeError(f'positive control {mut} was not rejected by TLC')
        chk.part('control_' + mut, outcome=res['outcome'], violated=res.get('violated'))
    # M2: all chunkings of small streams, with expected observations -> real code
    n_nontriv = 0
    n_total = 0
    for fr in m2_sets:
        name = 'MC_BloscM2_' + '_'.join(map(str, fr))
        cf = os.path.join(chk.scratch, name + '.json')
        res = run_tlc(chk, name, module_text=mc_module(name, fr, True), cfg_text=cfg(), env={'CASES_OUT': cf}, timeout=900)
        cases = read_json(cf)
        stream, exp, dec = build_stream(fr, rng)
        for c in cases:
            judge(chk, fr, c['chunks'], stream, exp, dec, obs=c['obs'], kind=n_total % 3)
            n_total += 1
            if chunk_class(fr, c['chunks']) not in ('aligned',):
                n_nontriv += 1
        chk.sample(dict(frames=list(fr), chunks=cases[len(cases) // 3]['chunks'], expected_obs=cases[len(cases) // 3]['obs']))
        chk.part('M2_' + 'x'.join(map(str, fr)), chunkings=len(cases))
    chk.add_cases(n_total, nontrivial=n_nontriv, traces=n_total)
    # writer + round trip + M3
    wname = 'MC_BloscWriter'
    wf = os.path.join(chk.scratch, 'writer.json')
    sizes, cbss = [1, 2, 4, 8], [1, 2, 3, 4, 8, 12, 16, 40]
    wtext = ('---- MODULE MC_BloscWriter ----\nEXTENDS BloscStream\nMCFrames == <<1>>\n'
             'ASSUME JsonSerialize(IOEnv.CASES_OUT, SetToSeq(WriterCases(9, {1, 2, 4, 8}, {1, 2, 3, 4, 8, 12, 16, 40})))\n====\n')
    run_tlc(chk, wname, module_text=wtext, cfg_text=cfg(invs=['NoBad']), env={'CASES_OUT': wf}, timeout=300)
    wcases = read_json(wf)
    comp = BloscCompressor()
    by_frames = {}
    nw = 0
    for wc in wcases:
        dt = {1: np.uint8, 2: np.uint16, 4: np.uint32, 8: np.uint64}[wc['itemsize']]
        arr = np.array([rng.randrange(256 ** wc['itemsize']) for _ in range(wc['n'])], dtype=dt)
        try:
            pieces = list(comp.compress(memoryview(arr), compression_block_size=wc['cbs']))
        except Exception as e:  # noqa
            chk.violation('compress-raises', f'compress n={wc["n"]} itemsize={wc["itemsize"]} cbs={wc["cbs"]}: {type(e).__name__}: {e}', wc)
            continue
        nw += 1
        ok = len(pieces) == len(wc['frames'])
        frames = []
        raw = arr.tobytes()
        for pc, fr in zip(pieces, wc['frames']):
            L = struct.unpack('!I', pc[:4])[0]
            frames.append(L)
            want = raw[fr['first'] * wc['itemsize']:(fr['first'] + fr['count']) * wc['itemsize']]
            import blosc
            if L != len(pc) - 4 or blosc.decompress(pc[4:]) != want:
                ok = False
        if not ok:
            chk.violation('compress-framing', f'compress n={wc["n"]} itemsize={wc["itemsize"]} cbs={wc["cbs"]}: frames differ from nelem=cbs//itemsize slicing', wc)
            continue
        stream = b''.join(pieces)
        dec = [f['count'] * wc['itemsize'] for f in wc['frames']]
        # round trip under random chunkings (incl. 0/1-byte chunks)
        for rep in range(3 if chk.quick else 12):
            chunks = random_chunking(len(stream), rng)
            ev = judge(chk, tuple(frames), chunks, stream, raw, dec, kind=rep % 3)
            if frames and len(stream) <= 64:
                by_frames.setdefault(tuple(frames), dict(dec=dec, runs=[]))['runs'].append(dict(chunks=chunks, events=ev, ret=len(raw)))
            nw += 1
    chk.part('writer', cases=len(wcases))
    chk.add_cases(nw, nontrivial=nw, traces=nw)
    # M3: hook traces validated by TLC, grouped by frame set
    groups = sorted(by_frames.items(), key=lambda kv: -len(kv[1]['runs']))[: (6 if chk.quick else 30)]
    nval = 0
    for fr, g in groups:
        tf = os.path.join(chk.scratch, 'trace_' + '_'.join(map(str, fr)) + '.json')
        with open(tf, 'w') as f:
            json.dump(dict(frames=list(fr), dec=g['dec'], runs=g['runs']), f)
        tcfg = ('CONSTANTS\n  P = 4\n  MaxEmpty = 2\n  Mut = "none"\n  Frames <- TFrames\nSPECIFICATION TraceSpec\n'
                'INVARIANT EventOK\nINVARIANT LengthOK\nINVARIANT EndOK\n')
        res = run_tlc(chk, 'BloscTrace', cfg_text=tcfg, env={'TRACE_FILE': tf}, expect_violation=True, timeout=600, workers=4)
        nval += len(g['runs'])
        if res['outcome'] != 'ok':
            v = res.get('violated', [])
            if 'EndOK' in v:
                chk.violation('trace-end-state', f'TLC rejects recorded decompress run for frames {fr}: final state/length differs from layer D', dict(frames=list(fr), tlc=res['out'][-3000:]))
            else:
                chk.drift += 1
                chk.note(f'model-drift C14: hook trace for frames {fr} rejected by {v} (observables judged separately)')
    # self-test of the binding: corrupt one recorded field and require rejection
    if groups:
        fr, g = groups[0]
        bad = json.loads(json.dumps(dict(frames=list(fr), dec=g['dec'], runs=g['runs'][:5])))
        for r in bad['runs']:
            if r['events']:
                r['events'][-1]['bytesout'] += 1
        tf = os.path.join(chk.scratch, 'trace_corrupt.json')
        json.dump(bad, open(tf, 'w'))
        res = run_tlc(chk, 'BloscTrace', cfg_text=tcfg, env={'TRACE_FILE': tf}, expect_violation=True, record=False, timeout=300, workers=2)
        if res['outcome'] == 'ok':
            raise RuntimeError('binding self-test failed: corrupted trace accepted')
        chk.part('binding_selftest', outcome='corrupted trace rejected')
    # ---- through asdf's own file layer: blsc ASDF files (block rewrite with the repository's compress) opened with asdf.open,
    # asdf's read block size varied; results compared, and the hook traces (with the chunk lengths asdf really used) validated by TLC
    import asdf
    from abacusnbody import _verif_trace
    from blscfile import write_blsc
    nfile = 0
    asdf_groups = {}
    for rep, (n, dt, cbs) in enumerate([(0, np.uint8, 16), (1, np.int64, 8), (5, np.int32, 8), (9, np.uint16, 6), (40, np.int32, 64), (33, np.uint8, 7), (100, np.float64, 256)][: (5 if chk.quick else 7)]):
        arr = (rng_np(rng, n)).astype(dt)
        fn = os.path.join(chk.scratch, f'blsc_{rep}.asdf')
        frames = write_blsc(fn, {'header': {'k': rep}, 'data': {'x': arr}}, cbs=cbs)[0] if n else write_blsc(fn, {'header': {'k': rep}, 'data': {'x': arr}}, cbs=cbs)
        frames = frames if n else []
        for bs in (None, 16, 23, 64, 4096):
            ev = []
            with asdf.config_context() as acfg:
                if bs:
                    try:
                        acfg.io_block_size = bs
                    except Exception:
                        continue
                _verif_trace.sink = ev
                try:
                    with asdf.open(fn, lazy_load=True, memmap=False) as af:
                        got = np.array(af['data']['x'][:])
                    err = None
                except Exception as e:  # noqa
                    got, err = None, f'{type(e).__name__}: {e}'
                finally:
                    _verif_trace.sink = None
            nfile += 1
            if err or got is None or got.dtype != arr.dtype or not np.array_equal(got, arr):
                chk.violation('asdf-layer-read', f'blsc ASDF file with {n} x {np.dtype(dt).name} (compression block {cbs} bytes) read through asdf.open with io_block_size={bs}: '
                              + (err or 'array differs from what was written'), dict(n=n, dtype=np.dtype(dt).name, cbs=cbs, io_block_size=bs))
                continue
            evs = [e for e in ev if e['event'] == 'blosc_chunk']
            if frames and evs and sum(e['chunk'] for e in evs) == sum(4 + f for f in frames) and sum(4 + f for f in frames) <= 200:
                g = asdf_groups.setdefault(tuple(frames), dict(dec=[f - 1 for f in frames], runs=[]))
                g['runs'].append(dict(chunks=[e['chunk'] for e in evs], events=[{k: e[k] for k in ('size', 'npartial', 'hasbuf', 'pos', 'bytesout')} for e in evs], ret=arr.nbytes))
    for fr, g in asdf_groups.items():
        tf = os.path.join(chk.scratch, 'trace_asdf_' + str(len(fr)) + '_' + str(sum(fr)) + '.json')
        with open(tf, 'w') as f:
            json.dump(dict(frames=list(fr), dec=g['dec'], runs=g['runs']), f)
        res = run_tlc(chk, 'BloscTrace', cfg_text=tcfg, env={'TRACE_FILE': tf}, expect_violation=True, timeout=600, workers=4)
        nval += len(g['runs'])
        if res['outcome'] != 'ok':
            v = res.get('violated', [])
            if 'EndOK' in v:
                chk.violation('asdf-layer-trace-end-state', f'TLC rejects the decompress run recorded under asdf.open for frames {fr}', dict(frames=list(fr)))
            else:
                chk.drift += 1
                chk.note(f'model-drift C14: asdf-layer hook trace for frames {fr} rejected by {v}')
    chk.part('asdf_layer', reads=nfile, traced_frame_sets=len(asdf_groups))
    chk.add_cases(nfile, traces=nfile)
    chk.part('M3', runs_validated=nval, frame_sets=len(groups))
    chk.cov['traces_validated_against_impl'] += nval
    if chk.drift:
        chk.note(f'model-drift C14: {chk.drift} runs whose hook events differ from layer A while results are correct')


def rng_np(rng, n):
    return np.array([rng.randrange(0, 200) for _ in range(n)], dtype=np.int64)


def random_chunking(n, rng):
    chunks = []
    left = n
    while left > 0:
        r = rng.random()
        if r < 0.15:
            k = 0
        elif r < 0.5:
            k = 1
        elif r < 0.8:
            k = rng.randrange(1, 6)
        else:
            k = rng.randrange(1, left + 1)
        k = min(k, left)
        if k == 0 and chunks[-2:] == [0, 0]:
            continue
        chunks.append(k)
        left -= k
    if rng.random() < 0.3:
        chunks.append(0)
    return chunks


def replay(chk, path):
    d = json.load(open(path))
    p = d['payload']
    stream = bytes.fromhex(p['stream'])
    import blosc
    exp, q = b'', 0
    for L in p['frames']:
        exp += blosc.decompress(stream[q + 4:q + 4 + L])
        q += 4 + L
    chk.drift = 0
    judge(chk, tuple(p['frames']), p['chunks'], stream, exp, [])
