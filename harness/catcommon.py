"""Shared machinery for C01 / C03: abstract catalogs -> TLC (CatalogIndex.tla) as oracle -> real files ->
CompaSOHaloCatalog -> token projection -> comparison."""
import json
import os
import warnings

import numpy as np

import synth_catalog as sc
from tlc import run_tlc, read_json

TYPES = [
    dict(nA=2, gA=0, mA=0, hA=0, nB=1, gB=1, mB=0, hB=0, away=False),
    dict(nA=0, gA=1, mA=1, hA=1, nB=0, gB=0, mB=0, hB=0, away=False),
    dict(nA=2, gA=0, mA=0, hA=0, nB=1, gB=0, mB=0, hB=0, away=True),
    dict(nA=1, gA=1, mA=2, hA=0, nB=0, gB=0, mB=1, hB=1, away=False),
    dict(nA=1, gA=2, mA=0, hA=0, nB=2, gB=0, mB=2, hB=0, away=False),
    dict(nA=0, gA=0, mA=0, hA=0, nB=0, gB=0, mB=0, hB=0, away=False),
]


def tla_halo(h):
    return ('[nA |-> %d, gA |-> %d, mA |-> %d, hA |-> %d, nB |-> %d, gB |-> %d, mB |-> %d, hB |-> %d, away |-> %s]'
            % (h['nA'], h['gA'], h['mA'], h['hA'], h['nB'], h['gB'], h['mB'], h['hB'], 'TRUE' if h['away'] else 'FALSE'))


def tla_cat(cat):
    return '<<' + ', '.join('<<' + ', '.join(tla_halo(h) for h in sl) + '>>' for sl in cat) + '>>'


def tla_mask(mask):
    return '<<' + ', '.join('<<' + ', '.join('TRUE' if b else 'FALSE' for b in m) + '>>' for m in mask) + '>>'


def m1(chk, quick):
    """exhaustive A = D over the catalog space + positive controls"""
    text = ('---- MODULE MC_CatalogIndex ----\nEXTENDS CatalogIndex\nVARIABLE v\n'
            'T4 == { HaloTypes[i] : i \\in {1, 2, 3, 4} }\nT6 == { HaloTypes[i] : i \\in 1..6 }\n'
            'ASSUME AllOK(%s)\n'
            'ASSUME \\A cat \\in CatsOver(T4, 1) : \\A abs \\in ABSets : \\A cl \\in BOOLEAN : ConcatTheorem(cat, abs, cl)\n'
            "Init == v = 0\nNext == v' = v\n====\n") % ('T4, 2' if quick else 'T6, 2')
    r = run_tlc(chk, 'MC_CatalogIndex', module_text=text, cfg_text='CONSTANTS\n  Mut = "none"\nINIT Init\nNEXT Next\n', timeout=3000)
    ncat = 462 if quick else 1892
    chk.cov['states'] += ncat
    chk.cov['transitions'] += ncat
    chk.part('M1_A_equals_D', catalogs=ncat, note='x all row masks x {A,B,AB} x cleaned on/off: LoadOK, IndexTheorem, ConcatTheorem hold')
    ctl = text.replace('AllOK(%s)' % ('T4, 2' if quick else 'T6, 2'), 'AllOK(T4, 1)')
    for mut in ('nocarry', 'mergebefore', 'noaway', 'prefilter'):
        r = run_tlc(chk, 'MC_CatalogIndex', module_text=ctl, cfg_text=f'CONSTANTS\n  Mut = "{mut}"\nINIT Init\nNEXT Next\n', expect_violation=True, record=False, timeout=600)
        if r['outcome'] == 'ok':
            raise RuntimeError(f'positive control {mut} not rejected by TLC')
        chk.part('control_' + mut, outcome='rejected')


def oracle(chk, cases):
    """cases: list of dict(cat, mask, ABs, cleaned) -> adds 'table' (list of int tokens) and 'index' ({AB: [(start, n)]})"""
    items = []
    for c in cases:
        abs_ = '<<' + ', '.join('"%s"' % a for a in c['ABs']) + '>>'
        items.append('Case(%s, %s, %s, %s)' % (tla_cat(c['cat']), tla_mask(c['mask']), abs_, 'TRUE' if c['cleaned'] else 'FALSE'))
    out = []
    B = 400
    for b0 in range(0, len(items), B):
        cf = os.path.join(chk.scratch, f'oracle_{b0}.json')
        text = ('---- MODULE MC_CatOracle ----\nEXTENDS CatalogIndex\nVARIABLE v\nCs == << ' + ',\n '.join(items[b0:b0 + B]) + ' >>\n'
                'ASSUME JsonSerialize(IOEnv.CASES_OUT, [i \\in 1..Len(Cs) |-> [table |-> Cs[i].table, index |-> Cs[i].index]])\n'
                "Init == v = 0\nNext == v' = v\n====\n")
        run_tlc(chk, 'MC_CatOracle', module_text=text, cfg_text='CONSTANTS\n  Mut = "none"\nINIT Init\nNEXT Next\n', env={'CASES_OUT': cf}, timeout=1200, record=False)
        out += read_json(cf)
    chk.cov['states'] += len(cases)
    chk.cov['transitions'] += len(cases)
    for c, o in zip(cases, out):
        c['table'] = [sc.token(t[0] - 1, t[1], t[2], t[3]) for t in o['table']]
        c['index'] = {ab: [(p[0], p[1]) for p in o['index'][a]] for a, ab in enumerate(c['ABs'])}
        tt, ti = twin(c['cat'], c['mask'], c['ABs'], c['cleaned'])
        if tt != c['table'] or ti != c['index']:
            raise RuntimeError(f'twin of CatalogIndex layer D disagrees with TLC on {c["cat"]} mask={c["mask"]} ABs={c["ABs"]} cleaned={c["cleaned"]}')
    return cases


def twin(cat, mask, ABs, cleaned):
    """Python transliteration of layer D of CatalogIndex.tla (ExpectedTable / ExpectedIndex).  oracle() requires it to agree with
    TLC on every case TLC computes; it is then used for catalogs beyond TLC's comfortable size."""
    table, index = [], {}
    for ab in ABs:
        index[ab] = []
        for s, sl in enumerate(cat):
            lay, _, _ = sc.layout(sl, ab)
            for k, h in enumerate(sl):
                if not mask[s][k]:
                    continue
                p0, n0, q0, m0 = lay[k]
                toks = ([] if (cleaned and h['away']) else [sc.token(s, ab, 'o', p0 + t) for t in range(n0)]) + ([sc.token(s, ab, 'm', q0 + t) for t in range(m0)] if cleaned else [])
                index[ab].append((len(table), len(toks)))
                table += toks
    return table, index


def kept_rows(c):
    return [(s, k) for s, sl in enumerate(c['cat']) for k in range(len(sl)) if c['mask'][s][k]]


class _NoGC:
    """the loader calls gc.collect() several times per load (a memory optimisation, ~80 ms each in this process);
    the harness replaces the module's `gc` name by this stub — no repository file is touched"""
    @staticmethod
    def collect(*a):
        return 0


def load(path, **kw):
    import asdf
    import abacusnbody.data.compaso_halo_catalog as chc
    from abacusnbody.data.compaso_halo_catalog import CompaSOHaloCatalog
    chc.gc = _NoGC
    asdf.get_config().validate_on_read = False      # schema validation of the harness's own files: 40 ms per open
    with warnings.catch_warnings():
        warnings.simplefilter('ignore')
        return CompaSOHaloCatalog(path, **kw)


def project(cat_obj, col):
    sub = cat_obj.subsamples
    if col == 'pos':
        return sc.tok_from_pos(sub['pos'])
    if col == 'vel':
        return sc.tok_from_vel(sub['vel'])
    if col == 'pid':
        if 'pid' in sub.colnames:
            return sc.tok_from_pid(sub['pid'])
        if 'lagr_idx' in sub.colnames:          # unpack_bits list without 'pid': the token is in the Lagrangian index too
            li = np.asarray(sub['lagr_idx']).astype(np.int64)
            return li[:, 0] + 32768 * li[:, 1]
        if 'density' in sub.colnames and 'tagged' in sub.colnames:
            return None
        return None
    if col == 'rvint':
        return sc.tok_from_rvint(sub['rvint'])
    if col == 'packedpid':
        return sc.tok_from_packedpid(sub['packedpid'])
    raise KeyError(col)


def compare(chk, prop, c, cobj, cols, tag, desc, payload, expect_ids=None):
    """Compare a loaded catalog with the oracle case c (table/index); returns True if it agrees."""
    ok = True
    rows = kept_rows(c)
    ids = [1000 + sc.uid(s, k) for (s, k) in rows] if expect_ids is None else expect_ids
    got_ids = np.asarray(cobj.halos['id']).astype(np.int64).tolist() if 'id' in cobj.halos.colnames else None
    if got_ids is not None and got_ids != ids:
        chk.violation(f'{tag}-halo-rows', f'{desc}: halo rows (ids) {got_ids} != expected {ids}', payload)
        return False
    if len(cobj.halos) != len(ids):
        chk.violation(f'{tag}-halo-rows', f'{desc}: {len(cobj.halos)} halo rows, expected {len(ids)}', payload)
        return False
    nsub = len(cobj.subsamples) if len(cobj.subsamples.colnames) else 0
    if nsub != len(c['table']):
        chk.violation(f'{tag}-table-length', f'{desc}: subsample table has {nsub} rows; the halos\' slices sum to {len(c["table"])}', payload)
        ok = False
    for ab in c['ABs']:
        st = np.asarray(cobj.halos['npstart' + ab]).astype(np.int64)
        no = np.asarray(cobj.halos['npout' + ab]).astype(np.int64)
        exp = c['index'][ab]
        if st.tolist() != [e[0] for e in exp] or no.tolist() != [e[1] for e in exp]:
            chk.violation(f'{tag}-index-{ab}', f'{desc}: npstart{ab}/npout{ab} = {list(zip(st.tolist(), no.tolist()))} != expected {exp}', payload)
            ok = False
            continue
        for col in cols:
            toks = project(cobj, col)
            if toks is None:
                continue
            for i, (s0, n0) in enumerate(exp):
                got = toks[s0:s0 + n0].tolist()
                want = c['table'][s0:s0 + n0]
                if got != want:
                    row = rows[i]
                    hk = c['cat'][row[0]][row[1]]
                    kind = 'away' if hk['away'] else ('merged' if hk['m' + ab] else ('empty' if not hk['n' + ab] else 'plain'))
                    chk.violation(f'{tag}-slice-{ab}-{col}-{kind}', f'{desc}: halo row {i} (slab {row[0]}, halo {row[1]}) subsample {ab} column {col}: particle tokens {got} != expected {want}', payload)
                    ok = False
                    break
    return ok


def gen_catalogs(rng, n, max_slabs=3, max_halos=3, types=TYPES):
    cats = []
    # all single-slab catalogs with <= 2 halos first (boundary-rich), then random ones
    for a in range(len(types)):
        cats.append([[types[a]]])
    for a in range(len(types)):
        for b in range(len(types)):
            cats.append([[types[a], types[b]]])
    cats.append([[]])
    cats.append([[], [types[0]]])
    cats.append([[types[3]], []])
    while len(cats) < n:
        ns = int(rng.integers(1, max_slabs + 1))
        cats.append([[types[int(rng.integers(0, len(types)))] for _ in range(int(rng.integers(0, max_halos + 1)))] for _ in range(ns)])
    return cats[:n]
