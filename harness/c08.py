"""C08 — every Fourier mode is binned exactly once into the right (k, mu) / (k_perp, k_par) bin.

spec/ModeBinning.tla.
  M1  TLC: for every instance (mesh n, k-edge family, mu / pi edges) the loops as written (layer A: folding,
      continue/break, incremental search, multiplicity) give exactly the declarative counts (layer D) and never
      index past an edge array; the pinned variant is the positive control (must fail)
  M2  TLC emits, per instance, every half-mesh cell with its multiplicity and its set of acceptable bins ->
      the real bin_kmu / bin_kppi are PROBED cell by cell (indicator meshes): bin and multiplicity of every
      cell, total counts, thread invariance; means of value, |k| and (2l+1)P_l-weighted value against an exact
      rational oracle built on the assignment; calc_pk_from_deltak / project_3d_to_poles wrappers
"""
import json
import os
import warnings
from fractions import Fraction

import numpy as np

from tlc import run_tlc, read_json, tla_seq

L = 2 * np.pi          # dk = 2*pi/L = 1.0 exactly


def instances(quick):
    ns = [2, 3, 4, 5, 6, 7, 8] if quick else [2, 3, 4, 5, 6, 7, 8, 9, 10, 11, 12]
    out = []
    for n in ns:
        ny = n // 2
        top = 2 * int(np.ceil(ny * np.sqrt(3))) + 3          # beyond the mesh corner, half units
        top += 1 - top % 2                                   # odd
        fam = {
            'lin_odd': list(range(1, top + 1, 2)),
            'from0_even': list(range(0, 2 * ny + 3, 2)),
            'loglike': [h for h in (1, 3, 5, 9, 15, 27) if h <= top + 12][: max(2, 4)],
            'single': [1, 2 * ny + 1],
            'below_nyq': [1, 3] if ny >= 2 else [1, 2],
            'at_nyq': [1, 2 * ny] if ny >= 1 and 2 * ny > 1 else [1, 3],
            'above0': [3, 5, 2 * ny + 3],
            'above0_even': list(range(2, 2 * ny + 5, 2)),        # integer edges starting above 0: modes sit exactly on every edge
        }
        mus = {1: [[0, 1], [1, 1]], 2: [[0, 1], [1, 2], [1, 1]], 3: [[0, 1], [1, 3], [2, 3], [1, 1]], 4: [[0, 1], [1, 4], [2, 4], [3, 4], [1, 1]]}
        pis = {'below': [0, 1, 2] if ny >= 2 else [0, 1], 'odd': [0, 3, 6], 'even': list(range(0, 2 * ny + 1, 2)) if ny >= 1 else [0, 2],
               'beyond': [0, 2 * ny + 1, 4 * ny + 2],
               'fine': list(range(0, 2 * ny + 3))}          # pi bins half a fundamental wide: several edges between consecutive kz planes
        k = 0
        for fname, H in fam.items():
            H = sorted(set(H))
            if len(H) < 2:
                continue
            mk = list(mus)[k % len(mus)]
            out.append(dict(kind='kmu', n=n, fam=fname, H=H, ME=mus[mk]))
            if quick and n > 6 and fname in ('loglike', 'above0'):
                k += 1
                continue
            out.append(dict(kind='kmu', n=n, fam=fname, H=H, ME=mus[list(mus)[(k + 1) % len(mus)]]))
            pk = list(pis)[k % len(pis)]
            out.append(dict(kind='kppi', n=n, fam=fname, H=H, PH=pis[pk], pname=pk))
            k += 1
    return out


def mc_text(insts, variant, emit):
    lines = ['---- MODULE MC_ModeBinning ----', 'EXTENDS ModeBinning', 'VARIABLE x']
    items = []
    for t, c in enumerate(insts):
        if c['kind'] == 'kmu':
            ok = f'KmuOK({c["n"]}, {tla_seq(c["H"])}, {tla_seq(c["ME"])}, "{variant}")'
            tab = f'SetToSeq(KmuTable({c["n"]}, {tla_seq(c["H"])}, {tla_seq(c["ME"])}))'
        else:
            ok = f'KppiOK({c["n"]}, {tla_seq(c["H"])}, {tla_seq(c["PH"])}, "{variant}")'
            tab = f'SetToSeq(KppiTable({c["n"]}, {tla_seq(c["H"])}, {tla_seq(c["PH"])}))'
        items.append(f'[ok |-> {ok}, cells |-> {tab if emit else "<<>>"}]')
    lines.append('Res == << ' + ',\n  '.join(items) + ' >>')
    lines.append('ASSUME \\A n \\in 1..16 : FullMeshTheorem(n)')
    lines.append('ASSUME JsonSerialize(IOEnv.CASES_OUT, Res)')
    lines += ['Init == x = 0', "Next == x' = x", '====']
    return '\n'.join(lines) + '\n'


def legendre(l, x2):
    """P_l(x) with x = +sqrt(x2) (the kernel works with mu >= 0 on the half mesh).  Even l: exact polynomial in x2 (Fractions);
    odd l: x times a polynomial in x2 — the irrational factor is taken in float64 (the kernel evaluates P_l in float32)."""
    from math import comb
    half = l // 2
    # P_l(x) = 2^-l sum_k (-1)^k C(l,k) C(2l-2k,l) x^(l-2k)
    even_part = sum(Fraction((-1) ** k * comb(l, k) * comb(2 * l - 2 * k, l), 2 ** l) * x2 ** (half - k) for k in range(half + 1))
    if l % 2 == 0:
        return even_part
    return float(even_part) * float(x2) ** 0.5


def sgn(i, n):
    return i if 2 * i <= n else i - n


def run(chk):
    from abacusnbody.analysis.power_spectrum import bin_kmu, bin_kppi, calc_pk_from_deltak, project_3d_to_poles
    rng = np.random.default_rng(chk.seed)
    chk.cov['rule'] = ('instances = mesh size x k-edge family (linear odd half-units, from 0 with modes on edges, log-like, single bin, ending below/at/above '
                       'Nyquist, starting above 0) x mu bins 1..4 / pi bins; every half-mesh cell of every instance is probed on the real code; '
                       'non-trivial = cell inside the binned range; distinct by (instance, cell)')
    chk.assumptions += ['L = 2*pi so that dk = 1 and half-unit edges are exact floats; a mode exactly on a bin edge may fall on either side (or out, at the outer edges)',
                        'mu edges span [0, 1] (documented); pi edges are linspace(0, pimax, Npi+1)',
                        'value means compared at 1e-9 relative (float64 accumulators)']
    insts = instances(chk.quick)
    cf = os.path.join(chk.scratch, 'tables.json')
    res = run_tlc(chk, 'MC_ModeBinning', module_text=mc_text(insts, 'fixed', True), cfg_text='INIT Init\nNEXT Next\n', env={'CASES_OUT': cf}, timeout=3000)
    tabs = read_json(cf)
    ncells = sum(len(t['cells']) for t in tabs)
    chk.cov['states'] += ncells
    chk.cov['transitions'] += ncells
    bad_model = [i for i, t in enumerate(tabs) if not t['ok']]
    chk.part('M1_A_equals_D', instances=len(insts), cells=ncells, model_failures=len(bad_model))
    # positive control
    cf2 = os.path.join(chk.scratch, 'pinned.json')
    small = [c for c in insts if c['n'] <= 6]
    run_tlc(chk, 'MC_ModeBinning', module_text=mc_text(small, 'pinned', False), cfg_text='INIT Init\nNEXT Next\n', env={'CASES_OUT': cf2}, record=False, timeout=3000)
    pin = read_json(cf2)
    npin = sum(1 for t in pin if not t['ok'])
    if npin == 0:
        raise RuntimeError('positive control failed: pinned loops agree with D everywhere')
    chk.part('control_pinned', instances=len(small), rejected=npin)

    nprobe = nontriv = 0
    with warnings.catch_warnings():
        warnings.simplefilter('ignore')
        for ci, (c, t) in enumerate(zip(insts, tabs)):
            n = c['n']
            kz = n // 2 + 1
            kedges = np.array(c['H'], dtype=np.float64) / 2.0
            if c['kind'] == 'kmu':
                muedges = np.array([a / b for a, b in c['ME']], dtype=np.float64)
                nm = len(muedges) - 1

                def call(w, nthread=1, poles=np.empty(0, 'i8')):
                    return bin_kmu(n, L, kedges, muedges, w, poles=poles, dtype=np.float64, nthread=nthread)
            else:
                PH = c['PH']
                pimax, npi = PH[-1] / 2.0, len(PH) - 1
                nm = npi

                def call(w, nthread=1, poles=None):
                    wc, cnt = bin_kppi(n, L, kedges, pimax, npi, w, dtype=np.float64, nthread=nthread)
                    return wc, cnt, None, None, None
            nb = len(kedges) - 1
            tag = f'{c["kind"]}-n{"odd" if n % 2 else "even"}-{c["fam"]}' + (f'-pi{c["pname"]}' if c['kind'] == 'kppi' else f'-mu{nm}')
            payload = dict(inst=c)
            # the model itself must agree (A = D); if TLC says no, the real code decides whether it is a defect
            assign = {}
            edge_obs = {}
            try:
                ones = np.ones((n, n, kz))
                _, counts_all, _, cpoles, _ = call(ones, nthread=1)
            except Exception as e:  # noqa
                chk.violation(f'{tag}-raises', f'{c}: {type(e).__name__}: {e}', payload)
                continue
            for cell in t['cells']:
                i, j, k = cell['i'], cell['j'], cell['k']
                w = np.zeros((n, n, kz))
                w[i, j, k] = 1.0
                wc, cnt, _, _, _ = call(w)
                tot = wc * cnt
                nz = np.argwhere(tot != 0)
                nprobe += 1
                kb, mb = cell['kb'], cell['mb']
                inrange = kb != [0] and mb != [0]
                nontriv += 1 if inrange else 0
                what = None
                if len(nz) == 0:
                    if 0 not in kb and 0 not in mb:
                        what = f'mode (i,j,k)=({i},{j},{k}) is not counted; expected bin {kb}x{mb} with multiplicity {cell["mult"]}'
                elif len(nz) > 1:
                    what = f'mode ({i},{j},{k}) contributes to several bins {nz.tolist()}'
                else:
                    b, m = int(nz[0][0]) + 1, int(nz[0][1]) + 1
                    mult = int(round(float(tot[b - 1, m - 1])))
                    assign[(i, j, k)] = (b, m, mult)
                    if kb == [0] or (mb == [0]):
                        what = f'mode ({i},{j},{k}) lies outside the binned range but is counted in bin ({b},{m})'
                    elif b not in kb or m not in mb:
                        what = f'mode ({i},{j},{k}) counted in bin ({b},{m}); expected k-bin {kb}, {"mu" if c["kind"] == "kmu" else "pi"}-bin {mb}'
                    elif mult != cell['mult']:
                        what = f'mode ({i},{j},{k}) counted {mult} times; it represents {cell["mult"]} mode(s) of the full mesh'
                # modes with the same |k| that sit exactly on a k edge must all be treated alike (the comparison is
                # integer-exact in the code, so the side is a convention, not rounding)
                if len(kb) > 1 and 0 not in mb:
                    v4 = 4 * (sgn(i, n) ** 2 + sgn(j, n) ** 2 + (k * k if c['kind'] == 'kmu' else 0))
                    edge_obs.setdefault(v4, set()).add(assign[(i, j, k)][0] if (i, j, k) in assign else 0)
                if what:
                    kk = 'mult' if 'times' in what else ('dropped' if 'not counted' in what else ('outside' if 'outside' in what else 'wrongbin'))
                    plane = 'nyq' if (n % 2 == 0 and k == n // 2) else ('k0' if k == 0 else 'mid')
                    chk.violation(f'{tag}-{kk}-{plane}', f'{c["kind"]} n={n} H={c["H"]} {"ME=" + str(c.get("ME")) if c["kind"] == "kmu" else "PH=" + str(c.get("PH"))}: {what}',
                                  dict(inst=c, cell=cell))
            for v4, obs in edge_obs.items():
                if len(obs) > 1:
                    chk.violation(f'{tag}-edge-inconsistent', f'{c["kind"]} n={n} H={c["H"]}: modes with the same |k|^2={v4 / 4} lying exactly on a bin edge are treated '
                                  f'differently (observed k-bins {sorted(obs)}, 0 = not counted)', dict(inst=c, v4=v4))
            # counts of one full call = sum of probed multiplicities; thread invariance
            exp_counts = np.zeros((nb, nm), dtype=np.int64)
            for (b, m, mult) in assign.values():
                exp_counts[b - 1, m - 1] += mult
            if not np.array_equal(counts_all, exp_counts):
                chk.violation(f'{tag}-counts-inconsistent', f'{c}: counts of a full call {counts_all.tolist()} differ from the per-mode probes {exp_counts.tolist()}', payload)
            for nt in (2, 3, 16):
                _, cn, _, _, _ = call(ones, nthread=nt)
                if not np.array_equal(cn, counts_all):
                    chk.violation(f'{tag}-threads', f'{c}: mode counts differ between nthread=1 and nthread={nt}', payload)
            # means: value, |k|, multipoles against the rational oracle on the observed (validated) assignment
            w = rng.integers(1, 1000, (n, n, kz)).astype(np.float64)
            PL = [[0, 2, 4], [0, 1, 2, 3, 4], [0, 2, 4, 6], [0, 3, 5]][ci % 4]
            poles = np.array(PL, dtype=np.int64)
            if c['kind'] == 'kmu':
                wc, cnt, wpoles, cpoles, kavg = call(w, nthread=2, poles=poles)
            else:
                wc, cnt, wpoles, cpoles, kavg = call(w, nthread=2)
            S = np.zeros((nb, nm))
            SK = np.zeros((nb, nm))
            SP = {l: [Fraction(0) if l % 2 == 0 else 0.0] * nb for l in PL}
            for (i, j, k), (b, m, mult) in assign.items():
                S[b - 1, m - 1] += mult * w[i, j, k]
                k2 = sgn(i, n) ** 2 + sgn(j, n) ** 2 + k * k
                SK[b - 1, m - 1] += mult * np.sqrt(k2)
                if c['kind'] == 'kmu':
                    mu2 = Fraction(k * k, k2) if k2 else Fraction(0)
                    for l in PL:
                        SP[l][b - 1] += mult * int(w[i, j, k]) * (2 * l + 1) * legendre(l, mu2)
            nzm = exp_counts > 0
            if not np.allclose(wc[nzm], (S[nzm] / exp_counts[nzm]), rtol=1e-9, atol=0):
                chk.violation(f'{tag}-mean-value', f'{c}: mean mesh value per bin differs from the mean over the modes of the bin', payload)
            if c['kind'] == 'kmu':
                if not np.allclose(kavg[nzm], SK[nzm] / exp_counts[nzm], rtol=1e-9):
                    chk.violation(f'{tag}-mean-k', f'{c}: mean |k| per bin differs from the mean over the modes of the bin', payload)
                ck = exp_counts.sum(axis=1)
                if not np.array_equal(cpoles, ck):
                    chk.violation(f'{tag}-pole-counts', f'{c}: N_mode of the multipoles {cpoles.tolist()} != sum over mu of the wedge counts {ck.tolist()}', payload)
                # the multipoles must not depend on the order / subset in which they are requested
                for plist in (PL[::-1], PL[1:], [PL[-1], PL[0]], [0]):
                    _, _, wp2, cp2, _ = call(w, nthread=2, poles=np.array(plist, dtype=np.int64))
                    for ip2, l2 in enumerate(plist):
                        if not np.allclose(wp2[ip2], wpoles[PL.index(l2)], rtol=1e-6, atol=1e-9 * (1 + np.abs(wpoles[0]).max())):
                            chk.violation(f'{tag}-pole-order-l{l2}', f'{c}: multipole l={l2} requested as poles={plist} differs from its value with poles={PL} '
                                          f'({wp2[ip2].tolist()} vs {wpoles[PL.index(l2)].tolist()})', payload)
                for ip, l in enumerate(PL):
                    want = np.array([float(SP[l][b] / int(ck[b])) if ck[b] else 0.0 for b in range(nb)])
                    # P_n is evaluated in float32 inside the kernel: tolerance 2e-5 relative to the bin's mean |value|
                    scale = np.array([abs(float(SP[0][b] / int(ck[b]))) if ck[b] else 1.0 for b in range(nb)]) + 1e-30
                    if np.any(np.abs(wpoles[ip] - want) > (1e-9 if l == 0 else 5e-5) * scale * (2 * l + 1)):
                        chk.violation(f'{tag}-pole-l{l}', f'{c}: l={l} multipole {wpoles[ip].tolist()} != (2l+1)P_l-weighted mean {want.tolist()}', payload)
                # l=0 equals the count-weighted mu-average of the wedges
                mono = np.array([np.sum(wc[b] * cnt[b]) / ck[b] if ck[b] else 0.0 for b in range(nb)])
                if not np.allclose(wpoles[0], mono, rtol=1e-9, atol=1e-12):
                    chk.violation(f'{tag}-monopole-vs-wedges', f'{c}: l=0 pole is not the mode-weighted mu-average of the wedges', payload)
            if ci % 9 == 0:
                chk.sample(dict(instance=c, first_cells=t['cells'][:3]))
        chk.part('probes', cells_probed=nprobe, inside_range=nontriv)
        # wrappers
        nw = 0
        for c in [x for x in insts if x['kind'] == 'kmu' and x['fam'] == 'lin_odd'][: (4 if chk.quick else 12)]:
            n = c['n']
            kz = n // 2 + 1
            amp = rng.integers(1, 30, (n, n, kz)).astype(np.float64)
            fft = (amp * np.exp(1j * rng.uniform(0, 6, amp.shape))).astype(np.complex128)
            kedges = np.array(c['H']) / 2.0
            muedges = np.array([a / b for a, b in c['ME']])
            direct = bin_kmu(n, L, kedges, muedges, amp ** 2, poles=np.array([0, 2]), dtype=np.float64, nthread=1)
            r = calc_pk_from_deltak(fft, L, kedges, muedges, poles=np.array([0, 2]), squeeze_mu_axis=False, nthread=2)
            nw += 1
            if not (np.allclose(r['power'], direct[0] * L ** 3, rtol=2e-5) and np.array_equal(r['N_mode'], direct[1])
                    and np.allclose(r['binned_poles'], direct[2] * L ** 3, rtol=2e-4, atol=1e-3 * np.abs(direct[2]).max() * L ** 3) and np.array_equal(r['N_mode_poles'], direct[3])):
                chk.violation('calc_pk_from_deltak-wrapper', f'{c}: calc_pk_from_deltak disagrees with bin_kmu on |delta_k|^2', dict(inst=c))
            bp, npo = project_3d_to_poles(kedges, amp ** 2, L, [0, 2])
            if not np.array_equal(npo, direct[1].sum(axis=1)):
                chk.violation('project_3d_to_poles-counts', f'{c}: project_3d_to_poles mode counts {npo.tolist()} != k-bin totals {direct[1].sum(axis=1).tolist()}', dict(inst=c))
        chk.part('wrappers', runs=nw)
    # ---- schedule replay of the real bin_kmu / bin_kppi source: worker threads with contiguous row chunks, per-thread accumulators
    # shared through proxies (a thread-shared accumulator or a wrong thread id loses counts only under particular interleavings)
    import sched
    nsch = 0
    for (n, T, kind) in ([(4, 2, 'kmu'), (5, 3, 'kppi')] if chk.quick else [(4, 2, 'kmu'), (5, 3, 'kppi'), (6, 3, 'kmu'), (4, 4, 'kppi')]):
        kz = n // 2 + 1
        w = np.arange(1, n * n * kz + 1, dtype=np.float64).reshape(n, n, kz)
        kedges = np.array([0.5, 1.5, 2.5, 9.5])
        muedges = np.array([0.0, 0.5, 1.0])
        kern = bin_kmu if kind == 'kmu' else bin_kppi
        args = (n, L, kedges, muedges, w) if kind == 'kmu' else (n, L, kedges, 2.5, 2, w)
        ref = kern(*args, dtype=np.float64, nthread=1)

        def build(sc, hook, kern=kern, args=args, T=T):
            sc.nthreads = T

            class NB:
                @staticmethod
                def set_num_threads(k):
                    pass

                @staticmethod
                def get_num_threads():
                    return T

                @staticmethod
                def get_thread_id():
                    return sc.thread_id()

                @staticmethod
                def prange(k):
                    return range(k)
            fn = sched.threaded_source(kern, sc, share='*', overrides={'numba': NB})
            fn.__globals__['__par'] = hook(sc.par)
            return lambda: [sched.unwrap(x) for x in fn(*args, dtype=np.float64, nthread=T)]

        def check(res, ref=ref):
            for a, b in zip(res, ref):
                if a is not None and not np.allclose(np.asarray(a, dtype=np.float64), np.asarray(b, dtype=np.float64), rtol=1e-12, atol=0):
                    return f'result {np.asarray(a).tolist()} differs from the single-thread result {np.asarray(b).tolist()}'
            return None
        try:
            r = sched.explore(build, check, max_schedules=12, seed=chk.seed, random_schedules=3)
        except Exception as e:  # noqa  (a restructured source the replayer cannot drive is a loss of coverage, not a violation)
            chk.note(f'{kern.__name__} schedule replay not available: {type(e).__name__}: {str(e)[:200]}')
            continue
        nsch += r['schedules']
        if r['problem']:
            chk.violation(f'schedule-{kind}', f'bin_{kind} n={n} with {T} worker threads: {r["problem"]}', dict(n=n, T=T, kind=kind))
    chk.part('schedule_replay', schedules=nsch)
    chk.add_cases(nsch)
    # ---- mode counts are exact integers however large: one bin holding every mode of a mesh with more than 2**24 modes (default float32 weights)
    try:
        nL = 336 if chk.quick else 416          # more than 2**25 modes: a single-precision counter cannot even add 2 any more
        wL = np.ones((nL, nL, nL // 2 + 1), dtype=np.float32)
        for nt in (1, 16):
            rL = bin_kmu(nL, L, np.array([0.0, 1.0e9]), np.array([0.0, 1.0]), wL, poles=np.array([0], dtype=np.int64), nthread=nt)
            cL = int(np.asarray(rL[1]).sum())
            if cL != nL ** 3 or int(np.asarray(rL[3]).sum()) != nL ** 3:
                chk.violation('large-mesh-count', f'bin_kmu n={nL} nthread={nt}, one bin covering every mode: N_mode = {cL} (poles {int(np.asarray(rL[3]).sum())}), the mesh has {nL ** 3} modes', dict(n=nL, nthread=nt))
            # (the weighted sums are accumulated in the dtype of the call — float32 by default — and lose precision beyond 2**24 addends per thread:
            #  a rounding matter outside this property; only the integer counts are judged here)
        del wL
        chk.part('large_mesh', n=nL, modes=nL ** 3)
    except Exception as e:  # noqa
        chk.violation(f'large-mesh-raises-{type(e).__name__}', f'bin_kmu on a large mesh: {type(e).__name__}: {e}', {})
    # ---- extended coverage (spec/Interp.tla): linear_interp values and expand_poles_to_3d as the inverse of the binning
    try:
        from abacusnbody.analysis.power_spectrum import linear_interp, expand_poles_to_3d
        run_tlc(chk, 'MC_Interp', module_text="---- MODULE MC_Interp ----\nEXTENDS Interp\nVARIABLE v\nASSUME AEqualsD(5, 4) /\\ LinearExact(6, 4)\nInit == v = 0\nNext == v' = v\n====\n",
                cfg_text='INIT Init\nNEXT Next\n', timeout=300)
        probs, obs = [], []
        for rep in range(200):
            nk = int(rng.integers(2, 30))
            x = (rng.uniform(0, 1) + rng.uniform(0.01, 1) * np.arange(nk)).astype(np.float64)
            y = rng.normal(size=nk)
            for xd in np.concatenate([rng.uniform(x[0] - 1, x[-1] + 1, 20), x]):
                if abs(linear_interp(float(xd), x, y) - np.interp(xd, x, y)) > 1e-9 * (1 + np.abs(y).max()):
                    probs.append(f'linear_interp({xd}) != numpy.interp on {nk} knots')
                    break
        # expand_poles_to_3d with P_0(k) = k and no higher poles must put |k| on every cell (folding of the negative frequencies)
        for n in (4, 5, 6, 7):
            kk = np.linspace(0.0, 2.0 * n, 8 * n + 1)
            Pk = expand_poles_to_3d(kk, kk[None, :].copy(), n, L, np.array([0]), dtype=np.float64)
            want = np.sqrt(np.array([[[sgn(i, n) ** 2 + sgn(j, n) ** 2 + k * k for k in range(n // 2 + 1)] for j in range(n)] for i in range(n)], dtype=np.float64))
            if not np.allclose(Pk, want, rtol=1e-6, atol=1e-6):
                badc = np.argwhere(~np.isclose(Pk, want, rtol=1e-6, atol=1e-6))
                i0 = badc[0]
                # known observation (DESIGN 11.3, not a listed property): on odd meshes index n//2 is folded to a negative frequency, as the binning loops did before their repair
                known = (n % 2 == 1) and all((c[0] == n // 2) or (c[1] == n // 2) for c in badc)
                (obs if known else probs).append(f'expand_poles_to_3d n={n}: cell {tuple(int(v) for v in i0)} holds P(|k|={Pk[tuple(i0)]:.4f}) but its wavenumber is {want[tuple(i0)]:.4f}'
                                                 + (' (observation: odd meshes fold index n//2 to a negative frequency)' if known else ''))
        chk.extended('linear_interp / expand_poles_to_3d', not probs, '; '.join(probs[:2] + ['observation: ' + o for o in obs[:1]]))
    except Exception as e:  # noqa
        chk.extended('linear_interp / expand_poles_to_3d', False, f'{type(e).__name__}: {e}')
    if bad_model:
        chk.note(f'model-drift C08: layer A ("fixed" variant) disagrees with layer D on instances {[insts[i] for i in bad_model[:3]]} (real code judged per mode above)')
    chk.add_cases(nprobe + nw, nontrivial=nontriv, traces=nprobe + nw)


def replay(chk, path):
    d = json.load(open(path))
    print(json.dumps(d['payload'])[:800])
    run(chk)
