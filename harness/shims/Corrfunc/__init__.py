# import-only stub (Corrfunc is absent; never called on verified paths)
