def DDrppi(*a, **k):
    raise NotImplementedError('Corrfunc stub')
def DDsmu(*a, **k):
    raise NotImplementedError('Corrfunc stub')
def wp(*a, **k):
    raise NotImplementedError('Corrfunc stub')
def xi(*a, **k):
    raise NotImplementedError('Corrfunc stub')
