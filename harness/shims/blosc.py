"""Stand-in for python-blosc (absent from this sandbox and its wheelhouse).

Codec: one marker byte 0xB1 followed by the raw bytes.  Only the framing / reassembly logic of
abacusnbody.data.asdf is verified on top of it; the codec itself is in the trusted base.
"""
import ctypes

SHUFFLE = 1
NOSHUFFLE = 0
BITSHUFFLE = 2
MAX_BUFFERSIZE = 2**31 - 1
_MARK = b'\xb1'
_nthreads = 1
_blocksize = 0


def set_nthreads(n):
    global _nthreads
    old, _nthreads = _nthreads, n
    return old


def set_blocksize(n):
    global _blocksize
    _blocksize = n


def compress(data, typesize=8, clevel=9, shuffle=SHUFFLE, cname='blosclz'):
    return _MARK + bytes(data)


def decompress(data, as_bytearray=False):
    data = bytes(data)
    if data[:1] != _MARK:
        raise RuntimeError('blosc shim: bad frame marker')
    return bytearray(data[1:]) if as_bytearray else data[1:]


def decompress_ptr(data, address):
    data = bytes(data)
    if data[:1] != _MARK:
        raise RuntimeError('blosc shim: bad frame marker')
    n = len(data) - 1
    ctypes.memmove(address, data[1:], n)
    return n
