# stand-in for parallel_numpy_rng (absent from this sandbox).  The real MTGenerator produces a stream that does not depend on
# nthread; this stand-in keeps that contract: draws come from one numpy Generator over the given bit generator, in call order.
import numpy as np


class MTGenerator:
    def __init__(self, bitgen=None, *a, **k):
        self._g = np.random.Generator(bitgen if bitgen is not None else np.random.PCG64())

    def random(self, size=None, nthread=None, dtype=np.float64, **k):
        return self._g.random(size=size, dtype=dtype)

    def standard_normal(self, size=None, nthread=None, dtype=np.float64, **k):
        return self._g.standard_normal(size=size, dtype=dtype)
