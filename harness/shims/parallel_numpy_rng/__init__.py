# import-only stub (parallel_numpy_rng is absent; never called on verified paths)
class MTGenerator:
    def __init__(self, *a, **k):
        raise NotImplementedError('parallel_numpy_rng stub')
