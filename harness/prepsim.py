"""Extended coverage (hosted by C12): prepare_sim.prepare_slab — the subsample compaction feeding AbacusHOD.staging (spec/PrepareSim.tla).

  M1  TLC: layer A (the halo loop as coded) = layer D (declarative output) for every arrangement of <= 3 halos x <= 2 particles x
      gaps x keep / alive flags x sub-masks; the particle file is partitioned by the halo rows' [npstartA, npstartA+npoutA); the
      writer/reader file-name contract; three positive controls
  M2  TLC emits the mask patterns; each is replayed into the REAL prepare_slab on a synthetic CompaSO catalogue (uncleaned and
      cleaned), with the two random helper functions (subsample_halos / submask_particles) stubbed to return the pattern
  M3  every run (stubbed and with the real random helpers) is recorded — loaded layout, masks recovered from the output files, halo
      file, particle file — and validated by TLC (RunOK); per-particle host attributes are compared in Python
  chain: the files are then staged by AbacusHOD (reader side of the contract): hid[pinds] == phid, weights = 1 / Np / downsample
Reported with chk.extended (never a VIOLATION of C12).
"""
import contextlib
import io
import json
import os
import shutil
import warnings

import numpy as np

import catcommon as cc
import synth_catalog as sc
from tlc import run_tlc, read_json

NAME = 'prepare_sim.prepare_slab: subsample compaction, npstartA/npoutA re-basing and the hand-over to AbacusHOD staging'
SIM = 'SimP'
MPART = 1.0e10


def _hdr():
    return sc.header(BoxSizeHMpc=sc.BOX, ParticleMassHMsun=MPART, SimName=SIM, Redshift=0.5)


def _run_slab(root, cat, cleaning, keep, subs, MT, want_ranks, slab=0, overrides=None, stub=True):
    """writes the catalogue, runs the real prepare_slab on one slab; returns (loaded layout, halo file, particle file, loaded catalogue)"""
    import h5py
    from abacusnbody.hod import prepare_sim as ps
    zd = sc.write_catalog(root, cat, hdr=_hdr(), sim=SIM, zdir='z0.500', halo_overrides=overrides)
    fn = os.path.join(zd, 'halo_info', f'halo_info_{slab:03d}.asdf')
    ref = cc.load(fn, subsamples=dict(A=True, rv=True), fields=['N', 'x_L2com', 'v_L2com', 'npstartA', 'npoutA', 'id', 'r98_L2com', 'r25_L2com', 'sigmav3d_L2com'], cleaned=cleaning)
    H = ref.halos
    alive = (np.asarray(H['N']) > 0) if cleaning else np.ones(len(H), bool)
    save = os.path.join(root, 'subsample', SIM, 'z0.500')
    os.makedirs(save, exist_ok=True)
    old = (ps.subsample_halos, ps.submask_particles)
    calls = []
    if stub:
        kp = [bool(k) for k, a in zip(keep, alive) if a]
        sq = [list(s) for s, k, a, n in zip(subs, keep, alive, np.asarray(H['npoutA'])) if a and k and n > 0]

        def sh(m, MT_):
            assert len(m) == len(kp), f'subsample_halos called with {len(m)} halos, expected {len(kp)}'
            return np.array([1.0 if k else 0.0 for k in kp])

        def sp(m_in, n_in, MT_):
            s = sq[len(calls)]
            calls.append(1)
            out = np.zeros(n_in).astype(int)
            out[[q - 1 for q in s]] = 1
            return out
        ps.subsample_halos, ps.submask_particles = sh, sp
    try:
        with warnings.catch_warnings(), contextlib.redirect_stdout(io.StringIO()), np.errstate(all='ignore'):
            warnings.simplefilter('ignore')
            import abacusnbody.data.compaso_halo_catalog as chc
            chc.gc = cc._NoGC
            ps.gc = cc._NoGC
            ps.prepare_slab(slab, save, root, SIM, 0.5, 'primary', dict(LRG=True, ELG=MT, QSO=False), MT, want_ranks, False, False, None, cleaning, 600, nthread=1)
    finally:
        ps.subsample_halos, ps.submask_particles = old
    hf = os.path.join(save, f'halos_xcom_{slab}_seed600_abacushod_oldfenv' + ('_MT' if MT else '') + '_new.h5')
    pf = os.path.join(save, f'particles_xcom_{slab}_seed600_abacushod_oldfenv' + ('_MT' if MT else '') + ('_withranks' if want_ranks else '') + '_new.h5')
    with h5py.File(hf, 'r') as f:
        halos = f['halos'][...]
    with h5py.File(pf, 'r') as f:
        parts = f['particles'][...]
    return ref, alive, halos, parts, save


def _record(ref, alive, halos, parts, keep=None, subs=None):
    """abstract run for TLC: layout from the loaded catalogue, masks given (stubbed) or recovered from the output (real helpers)"""
    H = ref.halos
    tok_loaded = sc.tok_from_pos(np.asarray(ref.subsamples['pos']))
    index_of = {int(t): i + 1 for i, t in enumerate(tok_loaded)}
    ptok = sc.tok_from_pos(np.asarray(parts['pos'])) if len(parts) else np.zeros(0, np.int64)
    pidx = [index_of.get(int(t), 0) for t in ptok]
    ids = np.asarray(H['id']).astype(np.int64)
    st = np.asarray(H['npstartA']).astype(np.int64)
    nn = np.asarray(H['npoutA']).astype(np.int64)
    if keep is None:
        kept_ids = set(np.asarray(halos['id']).astype(np.int64).tolist())
        keep = [int(i) in kept_ids for i in ids]
        sel = set(pidx)
        subs = [[q for q in range(1, int(n) + 1) if int(s) + q in sel] if k else [] for s, n, k in zip(st, nn, keep)]
    rec = dict(halos=[dict(id=int(i), start=int(s), n=int(n), alive=bool(a), keep=bool(k) if a else True, sub=[int(q) for q in sb] if (a and k and n > 0) else [])
                      for i, s, n, a, k, sb in zip(ids, st, nn, alive, keep, subs)],
               P=int(len(tok_loaded)),
               halofile=[dict(id=int(r['id']), ns=int(r['npstartA']), nn=int(r['npoutA'])) for r in halos],
               partfile=[dict(tok=int(p), hid=int(r['halo_id']), np=int(r['Np'])) for p, r in zip(pidx, parts)])
    return rec


def _attrs(ref, halos, parts, problems, desc, pkeep=None):
    """per-particle host attributes against the loaded catalogue (Python side of layer D: 'inherits its host')"""
    H = ref.halos
    row = {int(i): k for k, i in enumerate(np.asarray(H['id']).astype(np.int64))}
    for r in parts:
        k = row.get(int(r['halo_id']))
        if k is None:
            problems.append(f'{desc}: a particle row carries halo_id {int(r["halo_id"])} that is no halo of the slab')
            return
        if not np.isclose(float(r['halo_mass']), float(H['N'][k]) * MPART, rtol=1e-12) or not np.allclose(np.asarray(r['halo_vel']), np.asarray(H['v_L2com'][k])):
            problems.append(f'{desc}: particle of halo {int(r["halo_id"])} carries halo_mass / halo_vel of another halo')
            return
    for r in halos:
        k = row.get(int(r['id']))
        if k is None or not np.allclose(np.asarray(r['x_L2com']), np.asarray(H['x_L2com'][k])) or float(r['N']) != float(H['N'][k]):
            problems.append(f'{desc}: halo file row {int(r["id"])} does not carry that halo\'s position / N')
            return


def _stage(root, MT, want_ranks, problems, desc):
    """reader side: AbacusHOD stages the files prepare_slab wrote"""
    from abacusnbody.hod.abacus_hod import AbacusHOD
    import logging
    logging.getLogger('AbacusHOD').setLevel(logging.ERROR)
    sim_params = dict(sim_name=SIM, sim_dir=root, subsample_dir=os.path.join(root, 'subsample'), output_dir=os.path.join(root, 'out'), z_mock=0.5)
    import hodcommon as hc
    HOD_params = dict(tracer_flags=dict(LRG=True, ELG=MT, QSO=False), LRG_params=dict(hc.LRG), ELG_params=dict(hc.ELG), want_ranks=want_ranks, want_AB=False, want_shear=False,
                      want_expvel=False, want_rsd=True)
    try:
        with warnings.catch_warnings():
            warnings.simplefilter('ignore')
            b = AbacusHOD(sim_params, HOD_params)
    except Exception as e:  # noqa
        problems.append(f'{desc}: AbacusHOD cannot stage the files prepare_slab wrote: {type(e).__name__}: {str(e)[:200]}')
        return None
    hid = np.asarray(b.halo_data['hid']).astype(np.int64)
    phid = np.asarray(b.particle_data['phid']).astype(np.int64)
    pinds = np.asarray(b.particle_data['pinds']).astype(np.int64)
    if len(phid) and (np.any(pinds < 0) or np.any(pinds >= len(hid)) or not np.array_equal(hid[np.clip(pinds, 0, max(len(hid) - 1, 0))], phid)):
        problems.append(f'{desc}: after staging hid[pinds] != phid')
    return b


def run(chk):
    rng = np.random.default_rng(chk.seed + 21)
    problems, obs = [], []
    # ---- M1
    text = ("---- MODULE MC_PrepareSim ----\nEXTENDS PrepareSim\nVARIABLE v\nASSUME AgreeAll(%d, 2)\nASSUME NameContract\nASSUME Emit(%d, 2)\nInit == v = 0\nNext == v' = v\n====\n"
            % ((2, 2) if chk.quick else (3, 3)))
    cf = os.path.join(chk.scratch, 'prepsim_cases.json')
    run_tlc(chk, 'MC_PrepareSim', module_text=text, cfg_text='CONSTANTS\n  Mut = "none"\nINIT Init\nNEXT Next\n', env={'CASES_OUT': cf}, timeout=2400)
    cases = read_json(cf)
    ctl = "---- MODULE MC_PrepareSimCtl ----\nEXTENDS PrepareSim\nVARIABLE v\nASSUME Disagree(2, 2) # {}\nInit == v = 0\nNext == v' = v\n====\n"
    for mut in ('countall', 'startafter', 'keepall'):
        run_tlc(chk, 'MC_PrepareSimCtl', module_text=ctl, cfg_text=f'CONSTANTS\n  Mut = "{mut}"\nINIT Init\nNEXT Next\n', record=False, timeout=600)
    chk.part('prepsim_M1', mask_patterns=len(cases), theorem='A = D, SlicesOK, Partitioned, NameContract; 3 controls rejected')
    # ---- M2: replay into the real prepare_slab
    root = os.path.join(chk.scratch, 'prepsim')
    runs, nrun, nstage = [], 0, 0
    pick = cases if not chk.quick else [c for i, c in enumerate(cases) if len(c['halos']) <= 1 or i % 3 == 0]
    for ci, c in enumerate(pick):
        hs = c['halos']
        if not hs:
            continue
        cleaning = bool(ci % 2)
        if not cleaning and not all(h['alive'] for h in hs):
            cleaning = True
        MT, want_ranks = bool((ci // 2) % 2), bool((ci // 4) % 2)
        cat = [[dict(nA=(h['n'] - h['n'] // 2 if cleaning else h['n']), gA=(ci + k) % 2, mA=(h['n'] // 2 if cleaning else 0), hA=(k % 2 if cleaning else 0),
                     nB=0, gB=0, mB=0, hB=0, away=(not h['alive'])) for k, h in enumerate(hs)]]
        if any((not h['alive']) for h in hs):
            for k, h in enumerate(hs):
                if not h['alive']:
                    cat[0][k].update(nA=1, mA=0)                    # a cleaned-away halo keeps its raw particles in the file; the loader gives it none
        desc = f'prepare_slab halos={hs} cleaning={cleaning} MT={MT} want_ranks={want_ranks}'
        shutil.rmtree(root, ignore_errors=True)
        try:
            ref, alive, halos, parts, save = _run_slab(root, cat, cleaning, [h['keep'] for h in hs], [h['sub'] for h in hs], MT, want_ranks)
        except Exception as e:  # noqa
            problems.append(f'{desc}: {type(e).__name__}: {str(e)[:200]}')
            continue
        nrun += 1
        nload = np.asarray(ref.halos['npoutA']).astype(int).tolist()
        if nload != [h['n'] if h['alive'] else 0 for h in hs] or alive.tolist() != [h['alive'] for h in hs]:
            problems.append(f'harness: the catalogue written for {hs} loads with npoutA={nload} alive={alive.tolist()}')
            continue
        runs.append(_record(ref, alive, halos, parts, [h['keep'] for h in hs], [h['sub'] for h in hs]))
        _attrs(ref, halos, parts, problems, desc)
        if ci % 6 == 0 and len(halos):
            if _stage(root, MT, want_ranks, problems, desc) is not None:
                nstage += 1
    chk.part('prepsim_M2', runs=nrun, staged=nstage)
    # ---- observed runs with the real random helpers (masses spread so that halos and particles are kept and dropped)
    nobs = 0
    for rep in range(6 if chk.quick else 40):
        nh = int(rng.integers(3, 9))
        cleaning = bool(rep % 2)
        cat = [[dict(nA=int(rng.integers(0, 5)), gA=int(rng.integers(0, 2)), mA=(int(rng.integers(0, 3)) if cleaning else 0), hA=0, nB=0, gB=0, mB=0, hB=0,
                     away=bool(cleaning and rng.random() < 0.15)) for _ in range(nh)]]
        Ns = np.rint(10 ** rng.uniform(0.8, 4.0, nh)).astype(np.int64)          # masses 6e10 .. 1e14
        MT, want_ranks = bool(rep % 3 == 0), bool(rep % 4 == 1)
        desc = f'prepare_slab (real helpers) N={Ns.tolist()} cleaning={cleaning} MT={MT} want_ranks={want_ranks}'
        shutil.rmtree(root, ignore_errors=True)
        try:
            ref, alive, halos, parts, save = _run_slab(root, cat, cleaning, None, None, MT, want_ranks, overrides={0: {'N': Ns}}, stub=False)
        except Exception as e:  # noqa
            problems.append(f'{desc}: {type(e).__name__}: {str(e)[:200]}')
            continue
        nobs += 1
        runs.append(_record(ref, alive, halos, parts))
        _attrs(ref, halos, parts, problems, desc)
        # the number of particles kept per halo is deterministic in the helper: min(n, int(1 + 1.5 * 10**(x - x0)) [, 100])
        Hh = ref.halos
        for r in halos:
            k = int(np.nonzero(np.asarray(Hh['id']).astype(np.int64) == int(r['id']))[0][0])
            n_in, m = int(Hh['npoutA'][k]), float(Hh['N'][k]) * MPART
            if n_in == 0:
                want = -1
            elif MT:
                want = 0 if m < 1e11 else min(n_in, int(1 + 1.5 * 10 ** (np.log10(m) - 12.5)), 100)
            else:
                want = 0 if m < 1e12 else min(n_in, int(1 + 1.5 * 10 ** (np.log10(m) - 13)))
            if int(r['npoutA']) != want:
                problems.append(f'model-drift: {desc}: halo {int(r["id"])} (mass {m:.3g}, {n_in} particles) keeps {int(r["npoutA"])} particles, the helper formula gives {want}')
        if len(halos) and _stage(root, MT, want_ranks, problems, desc) is not None:
            nstage += 1
    chk.part('prepsim_observed', runs=nobs, staged=nstage)
    # ---- M3: TLC validates every recorded run
    tf, vf = os.path.join(chk.scratch, 'prepsim_runs.json'), os.path.join(chk.scratch, 'prepsim_verdict.json')
    json.dump(runs, open(tf, 'w'))
    vt = "---- MODULE MC_PrepareSimTrace ----\nEXTENDS PrepareSim\nVARIABLE v\nASSUME EmitVerdict(0)\nInit == v = 0\nNext == v' = v\n====\n"
    run_tlc(chk, 'MC_PrepareSimTrace', module_text=vt, cfg_text='CONSTANTS\n  Mut = "none"\nINIT Init\nNEXT Next\n', env={'TRACE_FILE': tf, 'VERDICT_OUT': vf}, timeout=1200)
    v = read_json(vf)
    for i in v['bad'][:3]:
        r = runs[i - 1]
        problems.append(f'TLC rejects the recorded run halos={r["halos"]}: halo file {r["halofile"]}, particle file {r["partfile"]}')
    # binding self-test: a corrupted record must be rejected
    if runs:
        bad = json.loads(json.dumps([r for r in runs if r['partfile']][:2]))
        for r in bad:
            r['partfile'][0]['hid'] += 1
        json.dump(bad, open(tf, 'w'))
        run_tlc(chk, 'MC_PrepareSimTrace', module_text=vt, cfg_text='CONSTANTS\n  Mut = "none"\nINIT Init\nNEXT Next\n', env={'TRACE_FILE': tf, 'VERDICT_OUT': vf}, record=False, timeout=600)
        v2 = read_json(vf)
        if bad and len(v2['bad']) != len(bad):
            raise RuntimeError('PrepareSim trace validation accepted a corrupted record')
    chk.part('prepsim_M3', runs_validated=v['n'], rejected=len(v['bad']))
    chk.add_cases(nrun + nobs, traces=len(runs))
    chk.extended(NAME, not problems, '; '.join(list(dict.fromkeys(problems))[:4] + obs[:2]) or f'{v["n"]} recorded runs accepted by TLC, {nstage} handed over to AbacusHOD staging')
