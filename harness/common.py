"""Shared pieces: evidence writer, known-findings, verdict printing, scratch dirs."""
import json
import os
import re
import shutil
import sys
import time

ROOT = os.path.dirname(os.path.dirname(os.path.abspath(__file__)))
SPEC = os.path.join(ROOT, 'spec')
SCRATCH = os.path.join(ROOT, '.scratch')
REPO = '/repo'


def load_known():
    """known_findings.txt: 'finding: property=<id> key=<key> <text>' suppress exactly <key>;
    'fixed: ...' lines suppress nothing."""
    out = {}
    fn = os.path.join(ROOT, 'known_findings.txt')
    if os.path.exists(fn):
        for line in open(fn):
            m = re.match(r'\s*finding:\s*property=(\S+)\s+key=(\S+)\s*(.*)', line)
            if m:
                out[(m.group(1), m.group(2))] = m.group(3).strip()
    return out


class Check:
    def __init__(self, pid, tier, seed, level='model_checking'):
        self.pid, self.tier, self.seed, self.level = pid, tier, seed, level
        self.t0 = time.time()
        self.cov = dict(states=0, transitions=0, traces_validated_against_impl=0, samples=[],
                        evaluations=0, distinct_nontrivial=0, rule='', tlc_runs=[], parts={})
        self.assumptions = []
        self.violations = 0
        self.known_hits = []
        self.notes = []
        self.known = load_known()
        self._vkeys = set()
        self.scratch = os.path.join(SCRATCH, f'{pid}-{tier}-{os.getpid()}')
        # seeded-change runs (tools/run_seed.sh) keep their evidence and replay files out of /verif's own
        self.evdir = os.environ.get('VERIF_EVIDENCE_DIR') or os.path.join(ROOT, 'evidence')
        self.rpdir = os.environ.get('VERIF_REPLAY_DIR') or os.path.join(ROOT, 'replays')
        shutil.rmtree(self.scratch, ignore_errors=True)
        os.makedirs(self.scratch, exist_ok=True)
        os.makedirs(os.path.join(self.rpdir, pid), exist_ok=True)
        os.makedirs(self.evdir, exist_ok=True)

    @property
    def quick(self):
        return self.tier == 'quick'

    # ---- coverage bookkeeping
    def add_tlc(self, res):
        self.cov['states'] += res.get('distinct', 0)
        self.cov['transitions'] += res.get('generated', 0)
        self.cov['tlc_runs'].append({k: res.get(k) for k in ('module', 'cfg', 'mode', 'generated', 'distinct', 'depth', 'wall_s', 'outcome')})

    def add_cases(self, n, nontrivial=None, traces=None):
        self.cov['evaluations'] += n
        self.cov['distinct_nontrivial'] += n if nontrivial is None else nontrivial
        self.cov['traces_validated_against_impl'] += n if traces is None else traces

    def sample(self, s, cap=6):
        if len(self.cov['samples']) < cap:
            self.cov['samples'].append(s)

    def part(self, name, **kw):
        self.cov['parts'].setdefault(name, {}).update(kw)
        print(f'[{time.time() - self.t0:7.1f}s] {name}: ' + ', '.join(f'{k}={v}' for k, v in kw.items())[:300])
        sys.stdout.flush()

    def extended(self, name, ok, detail=''):
        """Coverage beyond the listed properties (specification growth): recorded in the evidence and printed as a NOTE,
        never as a VIOLATION of the property whose check hosts it."""
        self.cov.setdefault('extended_coverage', {})[name] = dict(ok=bool(ok), detail=detail)
        if not ok:
            self.note(f'extended-coverage FAILED {name}: {detail}')

    def note(self, msg):
        print('NOTE ' + msg)
        self.notes.append(msg)

    # ---- verdicts
    def violation(self, key, what, payload=None):
        """Report one violation class (deduplicated by key).  A key listed in known_findings.txt is
        printed as KNOWN-FINDING and does not fail the check."""
        key = re.sub(r'[^A-Za-z0-9_.=+<>-]+', '_', str(key))
        if key in self._vkeys:
            return
        self._vkeys.add(key)
        if (self.pid, key) in self.known:
            print(f'KNOWN-FINDING: property={self.pid} key={key} {self.known[(self.pid, key)]}')
            self.known_hits.append(key)
            return
        self.violations += 1
        path = os.path.join(self.rpdir, self.pid, f'{key[:80]}.json')
        with open(path, 'w') as f:
            json.dump(dict(property=self.pid, key=key, what=what, payload=payload), f, indent=1, default=_js)
        print(f'DETAIL property={self.pid} key={key} :: {what}')
        print(f'VIOLATION property={self.pid} replay={path}')
        sys.stdout.flush()

    def finish(self, machinery_failure=False):
        cov = self.cov
        if not cov['samples']:
            cov['samples'].append(dict(note='no sample recorded by this run', parts=list(cov['parts'])[:5]))
        if not cov['rule']:
            cov['rule'] = 'see parts'
        ev = dict(property_id=self.pid, tier=self.tier, seed=self.seed, level=self.level,
                  coverage=cov, assumptions=self.assumptions, wall_s=round(time.time() - self.t0, 2),
                  violations=self.violations, known_findings_hit=self.known_hits, notes=self.notes,
                  machinery_failure=machinery_failure)
        with open(os.path.join(self.evdir, f'{self.pid}.json'), 'w') as f:
            json.dump(ev, f, indent=1, default=_js)
        shutil.rmtree(self.scratch, ignore_errors=True)
        if machinery_failure:
            return 2
        print(f'{self.pid} {self.tier}: states={cov["states"]} transitions={cov["transitions"]} '
              f'impl_cases={cov["traces_validated_against_impl"]} violations={self.violations} '
              f'known={len(self.known_hits)} wall={ev["wall_s"]}s')
        return 1 if self.violations else 0


def _js(o):
    try:
        import numpy as np
        if isinstance(o, np.generic):
            return o.item()
        if isinstance(o, np.ndarray):
            return o.tolist()
    except Exception:
        pass
    if isinstance(o, (set, frozenset)):
        return sorted(o)
    if isinstance(o, bytes):
        return o.hex()
    return repr(o)


def relayout(a, mode):
    """the same values in another memory layout: 0 = C-contiguous copy, 1 = non-contiguous view (columns / every second element of a wider
    buffer, as the fields of a structured table are), 2 = Fortran order (2-D) — kernels must not care how the caller's array is laid out"""
    import numpy as np
    a = np.asarray(a)
    mode = mode % 3
    if mode == 0 or a.ndim == 0 or a.size == 0:
        return np.array(a, copy=True, order='C')
    if mode == 1:
        if a.ndim == 1:
            buf = np.zeros(2 * len(a) + 1, dtype=a.dtype)
            v = buf[1::2]
        else:
            buf = np.zeros((a.shape[0], a.shape[1] + 4) + a.shape[2:], dtype=a.dtype)
            v = buf[:, 2:2 + a.shape[1]]
        v[...] = a
        return v
    return np.asfortranarray(a.copy()) if a.ndim >= 2 else np.array(a, copy=True)
