"""C04 — RVint and PID bit fields decode exactly per the documented layout.

spec/BitFields.tla (layer D: Hi20/Lo12, limb decode of the aux word; theorems: round trip, field independence).
  M2  TLC enumerates boundary words (every field at its boundary values x corner patterns of the other fields x
      patterns of the non-field bits) with their expected integer decode
  spec->code: unpack_rvint / unpack_pids in every output-selection mode (allocated, supplied, skipped), float32
      and float64, several (BoxSize, ppd); results must equal the spec and be identical across modes
  twin: the Python transliteration of layer D must agree with TLC on every enumerated word; it then judges
      2^22 random + structured words (quick) or ALL 2^32 RVint words and 10^7 aux words (thorough)
"""
import itertools
import json
import os
from fractions import Fraction

import numpy as np

from common import relayout

from tlc import run_tlc, read_json

BOXES = [(2.0, 1), (1000.0, 1024), (7.0, 3), (1.0e6, 6912)]


# ---- twin of layer D (vectorised) ----
def twin_rv(w):
    w = w.astype(np.int64)
    return np.floor_divide(w, 4096), np.mod(w, 4096) - 2048


def twin_aux(a):
    a = a.astype(np.uint64)
    x = (a & np.uint64(0x7FFF)).astype(np.int64)
    y = ((a >> np.uint64(16)) & np.uint64(0x7FFF)).astype(np.int64)
    z = ((a >> np.uint64(32)) & np.uint64(0x7FFF)).astype(np.int64)
    t = ((a >> np.uint64(48)) & np.uint64(1)).astype(np.int64)
    d = ((a >> np.uint64(49)) & np.uint64(0x3FF)).astype(np.int64)
    pid = (x + (y << 16) + (z << 32)).astype(np.int64)
    return x, y, z, t, d * d, pid


def limbs_to_u64(l):
    return np.uint64(l[0]) | (np.uint64(l[1]) << np.uint64(16)) | (np.uint64(l[2]) << np.uint64(32)) | (np.uint64(l[3]) << np.uint64(48))


def check_rv(chk, words, exp_pos, exp_vel, tagname):
    """words: int32 array (n,3); expected integer fields; all modes of unpack_rvint"""
    from abacusnbody.data.bitpacked import unpack_rvint
    n = len(words)
    nrun = 0
    for box, _ in BOXES:
        for dt in (np.float32, np.float64):
            want_v = (exp_vel * (6000.0 / 2048)).astype(dt)           # exact in both dtypes
            want_p64 = exp_pos.astype(np.float64) * (box / 1e6)
            tol = (2.0 ** -22 if dt == np.float32 else 2.0 ** -50) * np.maximum(np.abs(want_p64), box / 1e6)
            results = {}
            for pm, vm in itertools.product(('alloc', 'supplied', 'strided', 'skip'), repeat=2):
                if 'strided' in (pm, vm) and n > 20000:
                    continue
                # 'strided': the supplied output is a non-contiguous view (the halves of an (n, 7) buffer), as the columns of a structured particle table are
                sbuf = np.full((n, 7), np.nan, dtype=dt)
                posout = {'alloc': None, 'supplied': np.full((n, 3), np.nan, dtype=dt), 'strided': sbuf[:, 0:3], 'skip': False}[pm]
                velout = {'alloc': None, 'supplied': np.full((n, 3), np.nan, dtype=dt), 'strided': sbuf[:, 4:7], 'skip': False}[vm]
                inp = relayout(words, nrun)                                   # the input's memory layout rotates too,
                if (nrun // 3) % 2:
                    inp = np.ascontiguousarray(inp).reshape(-1)               # and its shape: (N,3) or the flat stream of 3N words
                r = unpack_rvint(inp, box, float_dtype=dt, posout=posout, velout=velout)
                nrun += 1
                p = r[0] if pm == 'alloc' else (posout if pm in ('supplied', 'strided') else None)
                v = r[1] if vm == 'alloc' else (velout if vm in ('supplied', 'strided') else None)
                if pm in ('supplied', 'strided') and r[0] != n or vm in ('supplied', 'strided') and r[1] != n:
                    chk.violation(f'rvint-{tagname}-count', f'unpack_rvint returned count {r} for {n} supplied rows', dict(box=box))
                if p is not None:
                    if p.dtype != dt or p.shape != (n, 3):
                        chk.violation(f'rvint-{tagname}-shape', f'pos dtype/shape {p.dtype}{p.shape} for {n} particles (input shape {inp.shape}, mode=({pm},{vm}))', dict(box=box))
                        continue
                    bad = ~(np.abs(p.astype(np.float64) - want_p64) <= tol)
                    if bad.any():
                        i = np.argwhere(bad)[0]
                        chk.violation(f'rvint-{tagname}-pos-{"neg" if words[tuple(i)] < 0 else "pos"}',
                                      f'word {int(words[tuple(i)])} box={box} {np.dtype(dt).name} mode=({pm},{vm}): pos {float(p[tuple(i)])!r} != '
                                      f'{int(exp_pos[tuple(i)])} x BoxSize/1e6 = {want_p64[tuple(i)]!r}', dict(word=int(words[tuple(i)]), box=box, dtype=np.dtype(dt).name))
                    results.setdefault('p', []).append(p.copy())
                if v is not None:
                    if v.dtype != dt or v.shape != (n, 3):
                        chk.violation(f'rvint-{tagname}-shape', f'vel dtype/shape {v.dtype}{v.shape} for {n} particles (input shape {inp.shape}, mode=({pm},{vm}))', dict(box=box))
                        continue
                    if not np.array_equal(v, want_v):
                        i = np.argwhere(v != want_v)[0]
                        chk.violation(f'rvint-{tagname}-vel', f'word {int(words[tuple(i)])} {np.dtype(dt).name} mode=({pm},{vm}): vel {float(v[tuple(i)])!r} != '
                                      f'({int(exp_vel[tuple(i)])}) x 6000/2048', dict(word=int(words[tuple(i)]), dtype=np.dtype(dt).name))
                    results.setdefault('v', []).append(v.copy())
            for kk, arrs in results.items():
                for a in arrs[1:]:
                    if not np.array_equal(a, arrs[0]):
                        chk.violation(f'rvint-{tagname}-mode-dependence', f'{kk} differs between output-selection modes ({np.dtype(dt).name}, box={box})', dict(box=box))
    return nrun


def check_aux(chk, packed, exp, tagname):
    from abacusnbody.data.bitpacked import unpack_pids, empty_bitpacked_arrays, _unpack_pids
    x, y, z, t, d, pid = exp
    n = len(packed)
    nrun = 0
    fields = ['pid', 'lagr_pos', 'tagged', 'density', 'lagr_idx']
    for box, ppd in BOXES[:3]:
        for dt in (np.float32, np.float64):
            ref = {}
            subsets = [s for r in range(1, 6) for s in itertools.combinations(fields, r)]
            if n > 20000:
                subsets = [tuple(fields), ('pid',), ('lagr_pos', 'density'), ('tagged', 'lagr_idx')]
            for si, sub in enumerate(subsets):
                kw = {f: True for f in sub}
                # ppd as an int, as a float, and one ulp below / above (headers store NP**(1/3)): all denote the same particles-per-dimension
                ppd_arg = [ppd, float(ppd), float(np.nextafter(float(ppd), 0.0)), float(np.nextafter(float(ppd), np.inf))][si % 4]
                # the words in any container numpy converts BY VALUE to uint64: strided / Fortran views, a Python list, a big-endian array, int64 (values below 2**63)
                cont = si % 6
                if cont == 3 and n <= 20000:
                    arg = [int(x_) for x_ in packed]
                elif cont == 4:
                    arg = packed.astype('>u8')
                elif cont == 5 and int(packed.max(initial=0)) < 2 ** 63:
                    arg = packed.astype(np.int64)
                else:
                    arg = relayout(packed, len(sub) + (dt == np.float64))
                out = unpack_pids(arg, box=box, ppd=ppd_arg, float_dtype=dt, **kw)
                nrun += 1
                if set(out) != set(sub):
                    chk.violation(f'aux-{tagname}-columns', f'unpack_pids({sub}) returned {sorted(out)}', dict(sub=list(sub)))
                    continue
                for f in sub:
                    if f in ref:
                        if not np.array_equal(ref[f], out[f]):
                            chk.violation(f'aux-{tagname}-mode-dependence-{f}', f'{f} depends on which other outputs are requested ({sub})', dict(sub=list(sub)))
                    else:
                        ref[f] = out[f]
            # supplied arrays through empty_bitpacked_arrays + _unpack_pids
            arrs = empty_bitpacked_arrays(n, ['pid', 'lagr_pos', 'tagged', 'density', 'lagr_idx'], float_dtype=dt)
            _unpack_pids(packed, box, ppd, float_dtype=dt, **arrs)
            nrun += 1
            for f in fields:
                if f in ref and not np.array_equal(ref[f], arrs[f]):
                    chk.violation(f'aux-{tagname}-supplied-{f}', f'{f}: supplied-output path differs from allocated path', dict(box=box))
            # against the spec
            def first_bad(mask):
                return int(np.argwhere(mask)[0][0])
            if 'pid' in ref and not np.array_equal(ref['pid'].astype(np.int64), pid):
                i = first_bad(ref['pid'].astype(np.int64) != pid)
                chk.violation(f'aux-{tagname}-pid', f'aux 0x{int(packed[i]):016x}: pid 0x{int(ref["pid"][i]) & (2**64-1):x} != 0x{int(pid[i]):x} (non-id bits must be cleared)', dict(aux=int(packed[i])))
            if 'lagr_idx' in ref and not np.array_equal(ref['lagr_idx'].astype(np.int64), np.stack([x, y, z], axis=1)):
                i = first_bad((ref['lagr_idx'].astype(np.int64) != np.stack([x, y, z], axis=1)).any(axis=1))
                chk.violation(f'aux-{tagname}-lagr_idx', f'aux 0x{int(packed[i]):016x}: lagr_idx {ref["lagr_idx"][i].tolist()} != {[int(x[i]), int(y[i]), int(z[i])]}', dict(aux=int(packed[i])))
            if 'tagged' in ref and not np.array_equal(ref['tagged'].astype(np.int64), t):
                i = first_bad(ref['tagged'].astype(np.int64) != t)
                chk.violation(f'aux-{tagname}-tagged', f'aux 0x{int(packed[i]):016x}: tagged {int(ref["tagged"][i])} != {int(t[i])}', dict(aux=int(packed[i])))
            if 'density' in ref and not np.array_equal(ref['density'].astype(np.float64), d.astype(np.float64)):
                i = first_bad(ref['density'].astype(np.float64) != d)
                chk.violation(f'aux-{tagname}-density', f'aux 0x{int(packed[i]):016x}: density {float(ref["density"][i])} != {int(d[i])} (squared 10-bit field)', dict(aux=int(packed[i])))
            if 'lagr_pos' in ref:
                idx = np.stack([x, y, z], axis=1).astype(np.float64)
                want = idx * (box / ppd) - box / 2
                eps = 2.0 ** -21 if dt == np.float32 else 2.0 ** -49
                tol = eps * (np.abs(idx * (box / ppd)) + box)
                bad = ~(np.abs(ref['lagr_pos'].astype(np.float64) - want) <= tol)
                if bad.any():
                    i = first_bad(bad.any(axis=1))
                    chk.violation(f'aux-{tagname}-lagr_pos', f'aux 0x{int(packed[i]):016x} box={box} ppd={ppd} {np.dtype(dt).name}: lagr_pos {ref["lagr_pos"][i].tolist()} != idx*Box/ppd - Box/2 = {want[i].tolist()}',
                                  dict(aux=int(packed[i]), box=box, ppd=ppd))
    return nrun


def run(chk):
    rng = np.random.default_rng(chk.seed)
    chk.cov['rule'] = ('words: TLC-enumerated boundary words (every field at boundary values x corner values of the other fields x non-field bit patterns) and, '
                       'through the TLC-validated twin, random/structured words (quick) or all 2^32 RVint words (thorough); non-trivial = word with at least one '
                       'non-zero field; distinct by word')
    chk.assumptions += ['velocity values (v x 375/128) are exactly representable: compared by equality; positions within 2 ulp of Hi20 x BoxSize/1e6',
                        'lagr_pos within a few ulp of idx x BoxSize/ppd - BoxSize/2 in the requested float type']
    cf = os.path.join(chk.scratch, 'cases.json')
    text = ('---- MODULE MC_BitFields ----\nEXTENDS BitFields\nVARIABLE v\n'
            'ASSUME RoundTrip(BoundaryP, BoundaryV) /\\ RvIndependent(BoundaryP, BoundaryV)\nASSUME AuxTheorem\nASSUME Emit(0)\n'
            "Init == v = 0\nNext == v' = v\n====\n")
    run_tlc(chk, 'MC_BitFields', module_text=text, cfg_text='INIT Init\nNEXT Next\n', env={'CASES_OUT': cf}, timeout=600)
    cases = read_json(cf)
    nrv, naux = len(cases['rv']), len(cases['aux'])
    chk.cov['states'] += nrv + naux
    chk.cov['transitions'] += nrv + naux
    chk.part('M2', rv_words=nrv, aux_words=naux, theorems='RoundTrip, RvIndependent, AuxTheorem (field independence) hold')
    # ---- TLC cases -> real code, and twin == TLC
    w = np.array([c['w'] for c in cases['rv']], dtype=np.int64)
    ep = np.array([c['pos'] for c in cases['rv']], dtype=np.int64)
    evl = np.array([c['vel'] for c in cases['rv']], dtype=np.int64)
    tp, tv = twin_rv(w)
    if not (np.array_equal(tp, ep) and np.array_equal(tv, evl)):
        raise RuntimeError('twin disagrees with TLC on RVint cases')
    pad = (-len(w)) % 3
    w3 = np.concatenate([w, np.zeros(pad, np.int64)]).astype(np.int32).reshape(-1, 3)
    ep3 = np.concatenate([ep, np.zeros(pad, np.int64)]).reshape(-1, 3)
    ev3 = np.concatenate([evl, np.full(pad, -2048, np.int64)]).reshape(-1, 3)
    nrun = check_rv(chk, w3, ep3, ev3, 'tlc')
    # no particles: every output-selection mode gives (0, 3) arrays / zero counts
    nrun += check_rv(chk, w3[:0], ep3[:0], ev3[:0], 'empty')
    packed = np.array([limbs_to_u64(c['aux']) for c in cases['aux']], dtype=np.uint64)
    e = cases['aux']
    exp = (np.array([c['exp']['x'] for c in e]), np.array([c['exp']['y'] for c in e]), np.array([c['exp']['z'] for c in e]),
           np.array([c['exp']['tagged'] for c in e]), np.array([c['exp']['density'] for c in e]),
           np.array([c['exp']['pid'][0] + (c['exp']['pid'][1] << 16) + (c['exp']['pid'][2] << 32) for c in e], dtype=np.int64))
    tw = twin_aux(packed)
    for a, b in zip(tw, exp):
        if not np.array_equal(a, b):
            raise RuntimeError('twin disagrees with TLC on aux cases')
    nrun += check_aux(chk, packed, exp, 'tlc')
    chk.add_cases(nrv + naux, nontrivial=nrv + naux - 2, traces=nrv + naux)
    chk.part('tlc_cases_on_code', calls=nrun, twin='agrees with TLC on all enumerated words')
    chk.sample(dict(rvint=cases['rv'][5]))
    chk.sample(dict(aux=cases['aux'][100]))
    # ---- twin-judged sweeps
    if chk.quick:
        n = 3 * (1 << 20)
        ws = rng.integers(-2 ** 31, 2 ** 31, n, dtype=np.int64)
        ws[:4096 * 3] = np.arange(-2048 * 3, 2048 * 3) * 4096 + rng.integers(0, 4096, 4096 * 3)     # every position sign/around 0
        blocks = [ws]
    total = 0
    if chk.quick:
        for ws in blocks:
            w3 = ws.astype(np.int32).reshape(-1, 3)
            p, v = twin_rv(ws)
            check_rv_fast(chk, w3, p.reshape(-1, 3), v.reshape(-1, 3))
            total += len(ws)
    else:
        step = 3 * (1 << 23)
        for s in range(-2 ** 31, 2 ** 31, step):
            ws = np.arange(s, min(s + step, 2 ** 31), dtype=np.int64)
            padn = (-len(ws)) % 3
            if padn:
                ws = np.concatenate([ws, np.zeros(padn, np.int64)])
            p, v = twin_rv(ws)
            check_rv_fast(chk, ws.astype(np.int32).reshape(-1, 3), p.reshape(-1, 3), v.reshape(-1, 3))
            total += len(ws) - padn
    chk.part('twin_rvint_sweep', words=total, exhaustive=(not chk.quick))
    na = (1 << 20) if chk.quick else 10 ** 7
    packed = rng.integers(0, 2 ** 63, na, dtype=np.int64).astype(np.uint64) * np.uint64(2) + rng.integers(0, 2, na).astype(np.uint64)
    # structured: single-bit words and their complements
    bits = np.array([1 << b for b in range(64)], dtype=np.uint64)
    packed[:64] = bits
    packed[64:128] = ~bits
    nrun = check_aux(chk, packed, twin_aux(packed), 'twin')
    chk.part('twin_aux_sweep', words=na)
    chk.add_cases(total + na, traces=total + na)
    if not chk.quick:
        chk.cov['exhaustive'] = True


def check_rv_fast(chk, w3, p3, v3):
    """one allocated + one supplied-output mode per dtype on large blocks (box 1000 and 2)"""
    from abacusnbody.data.bitpacked import unpack_rvint
    for box, dt in ((1000.0, np.float32), (2.0, np.float64)):
        pos, vel = unpack_rvint(w3, box, float_dtype=dt)
        want_p = p3.astype(np.float64) * (box / 1e6)
        tol = (2.0 ** -22 if dt == np.float32 else 2.0 ** -50) * np.maximum(np.abs(want_p), box / 1e6)
        bad = ~(np.abs(pos.astype(np.float64) - want_p) <= tol)
        if bad.any():
            i = tuple(np.argwhere(bad)[0])
            chk.violation(f'rvint-sweep-pos-{"neg" if w3[i] < 0 else "pos"}', f'word {int(w3[i])} box={box} {np.dtype(dt).name}: pos {float(pos[i])!r} != {int(p3[i])} x BoxSize/1e6',
                          dict(word=int(w3[i]), box=box, dtype=np.dtype(dt).name))
        wv = (v3 * (6000.0 / 2048)).astype(dt)
        if not np.array_equal(vel, wv):
            i = tuple(np.argwhere(vel != wv)[0])
            chk.violation('rvint-sweep-vel', f'word {int(w3[i])} {np.dtype(dt).name}: vel {float(vel[i])!r} != {int(v3[i])} x 6000/2048', dict(word=int(w3[i])))
        po = np.empty_like(pos)
        n1, n2 = unpack_rvint(w3, box, float_dtype=dt, posout=po, velout=False)
        if not np.array_equal(po, pos):
            chk.violation('rvint-sweep-mode-dependence', 'supplied posout differs from allocated output', dict(box=box))


def replay(chk, path):
    d = json.load(open(path))
    print(d['what'])
    run(chk)
