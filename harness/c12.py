"""C12 — HOD staging keeps every per-halo attribute on the same row.

spec/HodStaging.tla: layer D (every per-halo array aligned with hid, ids increasing, particle host indices correct) and layer A
(concatenate, sortedness test, one argsort applied to the arrays in Permuted(flags)).
  M1  TLC: every arrangement of <= 4 (quick) / 5 (thorough) distinct ids over <= 3 slab files x flags: Aligned and IdsIncreasing
      (the original list of permuted arrays is the positive control)
  M2  TLC emits the arrangements
  spec->code: each arrangement is written as HDF5 slab files (+ header), AbacusHOD(sim_params, HOD_params) is constructed for every
      flag combination (assembly bias, shear, ranks, exponential velocities) and chunking; every array of halo_data / particle_data
      is decoded (each attribute encodes its halo id) and compared row by row
"""
import json
import os
import shutil
import warnings

import numpy as np

from tlc import run_tlc, read_json

MPART = 1.0e9
SIM = 'SimH'


def halo_struct(ids, base=0):
    """ids are small labels (every attribute encodes its label); the id column stores base + label (real CompaSO ids exceed 2**53)"""
    n = len(ids)
    dt = np.dtype([('id', 'i8'), ('x_L2com', 'f8', 3), ('v_L2com', 'f8', 3), ('randoms_exp', 'f8', 3), ('randoms_gaus_vrms', 'f8', 3),
                   ('sigmav3d_L2com', 'f8'), ('r98_L2com', 'f8'), ('r25_L2com', 'f8'), ('N', 'f8'), ('deltac_rank', 'f8'), ('fenv_rank', 'f8'),
                   ('shear_rank', 'f8'), ('multi_halos', 'f8'), ('randoms', 'f8')])
    a = np.zeros(n, dtype=dt)
    i = np.asarray(ids, dtype=np.float64)
    a['id'] = np.asarray(ids, dtype=np.int64) + np.int64(base)
    a['x_L2com'] = np.stack([i, i + 0.25, i + 0.5], axis=1)
    a['v_L2com'] = np.stack([2 * i, 2 * i + 1, -i], axis=1)
    a['randoms_exp'] = np.stack([i + 100, i + 101, i + 102], axis=1)
    a['randoms_gaus_vrms'] = np.stack([i + 200, i + 201, i + 202], axis=1)
    a['sigmav3d_L2com'] = 3 * i + 1
    a['r98_L2com'] = 8 * i
    a['r25_L2com'] = 4.0
    a['N'] = i + 10
    a['deltac_rank'] = i / 64 - 0.25
    a['fenv_rank'] = -i / 64 + 0.25
    a['shear_rank'] = i / 128
    a['multi_halos'] = i + 0.5
    a['randoms'] = i / 1024
    return a


def part_struct(hids, rng, base=0):
    n = len(hids)
    dt = np.dtype([('pos', 'f8', 3), ('vel', 'f8', 3), ('halo_vel', 'f8', 3), ('halo_mass', 'f8'), ('halo_id', 'i8'), ('Np', 'f8'), ('downsample_halo', 'f8'),
                   ('randoms', 'f8'), ('halo_deltac', 'f8'), ('halo_fenv', 'f8'), ('halo_shear', 'f8'), ('ranks', 'f8'), ('ranksv', 'f8'), ('ranksp', 'f8'),
                   ('ranksr', 'f8'), ('ranksc', 'f8')])
    a = np.zeros(n, dtype=dt)
    i = np.asarray(hids, dtype=np.float64)
    a['halo_id'] = np.asarray(hids, dtype=np.int64) + np.int64(base)
    a['pos'] = rng.random((n, 3))
    a['vel'] = rng.random((n, 3))
    a['halo_vel'] = np.stack([2 * i, 2 * i + 1, -i], axis=1)
    a['halo_mass'] = (i + 10) * MPART
    a['Np'] = 4.0
    a['downsample_halo'] = 0.5
    a['randoms'] = rng.random(n)
    a['halo_deltac'] = i / 64 - 0.25
    a['halo_fenv'] = -i / 64 + 0.25
    a['halo_shear'] = i / 128
    for k, f in enumerate(('ranks', 'ranksv', 'ranksp', 'ranksr', 'ranksc')):
        a[f] = i + k / 8
    return a


def write_case(root, slabs, rng, ranks, base=0, zdir='z0.500'):
    import asdf
    import h5py
    shutil.rmtree(root, ignore_errors=True)
    sub = os.path.join(root, 'subsample', SIM, zdir)
    hi = os.path.join(root, 'sim', SIM, 'halos', zdir, 'halo_info')
    os.makedirs(sub)
    os.makedirs(hi)
    parts_all = []
    for s, ids in enumerate(slabs):
        asdf.AsdfFile({'header': {'H0': 67.0, 'BoxSize': 2000.0, 'ParticleMassHMsun': MPART, 'VelZSpace_to_kms': 75.0}, 'data': {'x': np.zeros(1)}}).write_to(
            os.path.join(hi, f'halo_info_{s:03d}.asdf'))
        with h5py.File(os.path.join(sub, f'halos_xcom_{s}_seed600_abacushod_oldfenv_MT_new.h5'), 'w') as f:
            f.create_dataset('halos', data=halo_struct(ids, base))
        # two particles per halo, hosted in this slab, in halo order
        hids = [i for i in ids for _ in range(2)]
        parts_all.append(hids)
        with h5py.File(os.path.join(sub, f'particles_xcom_{s}_seed600_abacushod_oldfenv_MT{"_withranks" if ranks else ""}_new.h5'), 'w') as f:
            f.create_dataset('particles', data=part_struct(hids, rng, base))
    return parts_all


def decode(name, arr):
    """halo id encoded in row values of a staged array"""
    a = np.asarray(arr, dtype=np.float64)
    return {
        'hpos': lambda: a[:, 0], 'hvel': lambda: a[:, 0] / 2, 'hmass': lambda: a / MPART - 10, 'hid': lambda: a, 'hmultis': lambda: a - 0.5,
        'hrandoms': lambda: a * 1024, 'hsigma3d': lambda: (a - 1) / 3, 'hc': lambda: a / 2, 'hrvir': lambda: a / 8,
        'hdeltac': lambda: (a + 0.25) * 64, 'hfenv': lambda: (0.25 - a) * 64, 'hshear': lambda: a * 128,
    }[name]()


def run(chk):
    rng = np.random.default_rng(chk.seed)
    chk.cov['rule'] = ('arrangements of distinct halo ids over <= 3 slab files (every ordering x every cut; increasing, decreasing, interleaved) enumerated by TLC, '
                       'x flags (assembly bias, shear, ranks, exponential velocities) x chunking; non-trivial = arrangement whose concatenated ids are not already sorted; '
                       'distinct by (arrangement, flags, chunking)')
    chk.assumptions += ['synthetic HDF5 subsample slabs and ASDF headers; every attribute is an injective function of its halo id',
                        'hveldev is decoded with the offset of the velocity-deviate source selected by want_expvel']
    n = 4 if chk.quick else 5
    cf = os.path.join(chk.scratch, 'cases.json')
    text = f"---- MODULE MC_HodStaging ----\nEXTENDS HodStaging\nVARIABLE v\nASSUME AllAligned({n})\nASSUME Emit({n})\nInit == v = 0\nNext == v' = v\n====\n"
    run_tlc(chk, 'MC_HodStaging', module_text=text, cfg_text='CONSTANTS\n  Variant = "fixed"\nINIT Init\nNEXT Next\n', env={'CASES_OUT': cf}, timeout=1200)
    cases = read_json(cf)
    chk.cov['states'] += len(cases)
    chk.cov['transitions'] += len(cases)
    chk.part('M1_M2', arrangements=len(cases), theorem='Aligned and IdsIncreasing hold for every arrangement and flag combination')
    ctl = "---- MODULE MC_HodStagingCtl ----\nEXTENDS HodStaging\nVARIABLE v\nASSUME Misaligned(3) # {}\nInit == v = 0\nNext == v' = v\n====\n"
    run_tlc(chk, 'MC_HodStagingCtl', module_text=ctl, cfg_text='CONSTANTS\n  Variant = "pinned"\nINIT Init\nNEXT Next\n', record=False, timeout=300)
    chk.part('control_pinned', outcome='original permuted-array list leaves arrays misaligned (expected)')
    from abacusnbody.hod.abacus_hod import AbacusHOD
    import logging
    logging.getLogger('AbacusHOD').setLevel(logging.ERROR)
    root = os.path.join(chk.scratch, 'hod')
    pick = cases[:: 3] if not chk.quick else cases[:: max(1, len(cases) // 90)]
    nrun = nontriv = 0
    for ci, c in enumerate(pick):
        slabs = [[int(x) * 7 + 3 for x in s] for s in c['slabs'] if True]          # spread the ids (still distinct, same order)
        slabs = [s for s in slabs]
        if sum(len(s) for s in slabs) == 0:
            continue
        # an empty slab file is legal for the loader only if it exists: keep empty slabs as empty datasets
        flags = [(False, False, False, False), (True, True, True, False), (True, False, False, True), (False, True, True, True)][ci % 4]
        want_AB, want_shear, want_ranks, want_expvel = flags
        base = ((1 << 60) + 1) if ci % 3 == 1 else 0            # ids beyond 2**53 are not representable in float64
        # every fifth arrangement is staged at a SECONDARY redshift (halo outputs only: the particle files are not read there)
        secondary = (ci % 5 == 2)
        zm, zd_ = (0.575, 'z0.575') if secondary else (0.5, 'z0.500')
        parts_all = write_case(root, slabs, rng, want_ranks, base, zdir=zd_)
        sim_params = dict(sim_name=SIM, sim_dir=os.path.join(root, 'sim'), subsample_dir=os.path.join(root, 'subsample'), output_dir=os.path.join(root, 'out'), z_mock=zm, force_mt=True)
        HOD_params = dict(tracer_flags=dict(LRG=True, ELG=False, QSO=False), LRG_params={}, want_ranks=want_ranks, want_AB=want_AB, want_shear=want_shear,
                          want_expvel=want_expvel, want_rsd=True)
        desc = f'{"secondary-redshift " if secondary else ""}slab files with halo ids {"2**60+1+" if base else ""}{slabs} flags AB={want_AB} shear={want_shear} ranks={want_ranks} expvel={want_expvel}'
        payload = dict(slabs=slabs, flags=list(flags), base=int(base))
        try:
            with warnings.catch_warnings():
                warnings.simplefilter('ignore')
                ball = AbacusHOD(sim_params, HOD_params)
        except Exception as e:  # noqa
            chk.violation(f'raises-{type(e).__name__}', f'{desc}: {type(e).__name__}: {e}', payload)
            continue
        nrun += 1
        ids_file = [i for s in slabs for i in s]
        srt = sorted(ids_file)
        nontriv += 1 if ids_file != srt else 0
        hd, pd = ball.halo_data, ball.particle_data
        order = 'sorted' if ids_file == srt else ('reversed' if ids_file == srt[::-1] else 'interleaved')
        hid = (np.asarray(hd['hid']).astype(np.int64) - np.int64(base)).tolist()
        if hid != srt:
            chk.violation(f'ids-not-increasing-{order}', f'{desc}: staged hid {hid} is not the increasing id sequence {srt}', payload)
            continue
        expect = ['hpos', 'hvel', 'hmass', 'hid', 'hmultis', 'hrandoms', 'hveldev', 'hsigma3d', 'hc', 'hrvir'] + (['hdeltac', 'hfenv'] if want_AB else []) + (['hshear'] if want_shear else [])
        for name in expect:
            if name not in hd:
                chk.violation(f'missing-array-{name}', f'{desc}: halo_data lacks {name}', payload)
                continue
            if name == 'hveldev':
                got = np.asarray(hd[name])[:, 0] - (100 if want_expvel else 200)
            elif name == 'hid':
                got = (np.asarray(hd[name]).astype(np.int64) - np.int64(base)).astype(np.float64)
            else:
                got = decode(name, hd[name])
            if not np.allclose(got, np.asarray(srt, dtype=np.float64), rtol=1e-9, atol=1e-9):
                chk.violation(f'misaligned-{name}-{order}', f'{desc}: rows of {name} describe halos {np.rint(got).astype(int).tolist()} while hid is {srt}', payload)
        # particles: host index points to the halo whose id the particle records
        if secondary:
            continue
        phid = np.asarray(pd['phid']).astype(np.int64)
        pinds = np.asarray(pd['pinds']).astype(np.int64)
        want_phid = [i for hs in parts_all for i in hs]
        if (phid - np.int64(base)).tolist() != want_phid:
            chk.violation('particle-order', f'{desc}: particle host ids {(phid - np.int64(base)).tolist()} != file order {want_phid}', payload)
        elif np.any(pinds < 0) or np.any(pinds >= len(srt)) or not np.array_equal(np.asarray(hd['hid'])[pinds], phid):
            chk.violation(f'particle-host-index-{order}', f'{desc}: hid[pinds] = {(np.asarray(hd["hid"])[np.clip(pinds, 0, len(srt) - 1)] - np.int64(base)).tolist()} != phid {(phid - np.int64(base)).tolist()}', payload)
        else:
            # per-particle host attributes agree with the host row
            if not np.allclose(np.asarray(pd['phmass']), np.asarray(hd['hmass'])[pinds]) or not np.allclose(np.asarray(pd['phvel']), np.asarray(hd['hvel'])[pinds]):
                chk.violation(f'particle-host-attributes-{order}', f'{desc}: particle host mass/velocity differ from the row its host index points to', payload)
        if want_ranks and not np.allclose(np.asarray(pd['pranks']), (phid - np.int64(base)).astype(np.float64)):
            chk.violation('particle-ranks', f'{desc}: pranks rows do not belong to the recorded host ids', payload)
        if ci % 30 == 0:
            chk.sample(dict(slabs=slabs, flags=dict(AB=want_AB, shear=want_shear, ranks=want_ranks, expvel=want_expvel), staged_hid=hid))
        # chunking: two chunks over the slab files
        if ci % 5 == 0 and len(slabs) >= 2:
            for chunk in (0, 1):
                try:
                    with warnings.catch_warnings():
                        warnings.simplefilter('ignore')
                        b2 = AbacusHOD(sim_params, HOD_params, chunk=chunk, n_chunks=2)
                    nrun += 1
                    njump = int(np.ceil(len(slabs) / 2))
                    sel = [i for s in slabs[chunk * njump:(chunk + 1) * njump] for i in s]
                    h2 = b2.halo_data
                    if (np.asarray(h2['hid']).astype(np.int64) - np.int64(base)).tolist() != sorted(sel):
                        chk.violation('chunk-ids', f'{desc} chunk {chunk}/2: staged hid {(np.asarray(h2["hid"]).astype(np.int64) - np.int64(base)).tolist()} != sorted ids of its slabs {sorted(sel)}', payload)
                    else:
                        for name in ('hc', 'hrvir', 'hsigma3d', 'hmass'):
                            if not np.allclose(decode(name, h2[name]), np.asarray(sorted(sel), dtype=np.float64)):
                                chk.violation(f'chunk-misaligned-{name}', f'{desc} chunk {chunk}/2: {name} rows are not aligned with hid', payload)
                        # the particles of a chunk are those of ITS slab files, each pointing at its host row
                        p2 = b2.particle_data
                        ph2 = np.asarray(p2['phid']).astype(np.int64) - np.int64(base)
                        pi2 = np.asarray(p2['pinds']).astype(np.int64)
                        want_ph2 = [i for hs in parts_all[chunk * njump:(chunk + 1) * njump] for i in hs]
                        hid2 = np.asarray(h2['hid']).astype(np.int64) - np.int64(base)
                        if ph2.tolist() != want_ph2:
                            chk.violation('chunk-particles', f'{desc} chunk {chunk}/2: particle host ids {ph2.tolist()} are not those of the chunk\'s slab files {want_ph2}', payload)
                        elif len(ph2) and (np.any(pi2 < 0) or np.any(pi2 >= len(hid2)) or not np.array_equal(hid2[np.clip(pi2, 0, len(hid2) - 1)], ph2)):
                            chk.violation('chunk-particle-host-index', f'{desc} chunk {chunk}/2: hid[pinds] != phid', payload)
                except Exception as e:  # noqa
                    if sum(len(s) for s in slabs[chunk * int(np.ceil(len(slabs) / 2)):(chunk + 1) * int(np.ceil(len(slabs) / 2))]) > 0:
                        chk.violation(f'chunk-raises-{type(e).__name__}', f'{desc} chunk {chunk}/2: {type(e).__name__}: {e}', payload)
    # ---- a large particle table (tens of thousands of particles over a few unsorted halos): every host index must be right
    try:
        import asdf
        import h5py
        big = [[31, 10], [17], [24, 45]]
        write_case(root, big, rng, False)
        sub = os.path.join(root, 'subsample', SIM, 'z0.500')
        per = [7000, 9001, 5003]
        want_phid = []
        for s_, ids in enumerate(big):
            hids = [ids[j % len(ids)] for j in range(per[s_])]
            want_phid += hids
            with h5py.File(os.path.join(sub, f'particles_xcom_{s_}_seed600_abacushod_oldfenv_MT_new.h5'), 'w') as f:
                f.create_dataset('particles', data=part_struct(hids, rng))
        sim_params = dict(sim_name=SIM, sim_dir=os.path.join(root, 'sim'), subsample_dir=os.path.join(root, 'subsample'), output_dir=os.path.join(root, 'out'), z_mock=0.5, force_mt=True)
        HOD_params = dict(tracer_flags=dict(LRG=True, ELG=False, QSO=False), LRG_params={}, want_ranks=False, want_AB=True, want_shear=False, want_expvel=False, want_rsd=True)
        with warnings.catch_warnings():
            warnings.simplefilter('ignore')
            b = AbacusHOD(sim_params, HOD_params)
        nrun += 1
        pinds = np.asarray(b.particle_data['pinds']).astype(np.int64)
        hidb = np.asarray(b.halo_data['hid']).astype(np.int64)
        phid = np.asarray(b.particle_data['phid']).astype(np.int64)
        if phid.tolist() != want_phid:
            chk.violation('particle-order-large', 'large particle table: particle host ids are not in file order', dict(slabs=big))
        elif np.any(pinds < 0) or np.any(pinds >= len(hidb)) or not np.array_equal(hidb[np.clip(pinds, 0, len(hidb) - 1)], phid):
            nbad = int(np.sum(hidb[np.clip(pinds, 0, len(hidb) - 1)] != phid))
            first = int(np.argmax(hidb[np.clip(pinds, 0, len(hidb) - 1)] != phid))
            chk.violation('particle-host-index-large', f'{len(phid)} particles over unsorted halos {big}: {nbad} host indices do not point to the halo the particle records (first at particle {first})', dict(slabs=big, per=per))
    except Exception as e:  # noqa
        chk.violation(f'large-table-raises-{type(e).__name__}', f'large particle table: {type(e).__name__}: {e}', {})
    # ---- light-cone layout: one subsample slab, header taken from lc_halo_info.asdf (with the observer's origin); same alignment rules
    try:
        import asdf
        for li, lslab in enumerate(([31, 10, 24, 17], [3, 10, 17], [45, 3])):
            for lflags in ((False, False, False, False), (True, True, True, True)):
                want_AB, want_shear, want_ranks, want_expvel = lflags
                lbase = ((1 << 60) + 1) if li == 1 else 0
                parts_all = write_case(root, [lslab], rng, want_ranks, lbase)
                lcd = os.path.join(root, 'sim', SIM, 'z0.500')
                os.makedirs(lcd, exist_ok=True)
                asdf.AsdfFile({'header': {'H0': 67.0, 'BoxSize': 2000.0, 'ParticleMassHMsun': MPART, 'VelZSpace_to_kms': 75.0, 'LightConeOrigins': [[-990.0, -990.0, -990.0]]},
                               'data': {'x': np.zeros(1)}}).write_to(os.path.join(lcd, 'lc_halo_info.asdf'))
                sim_params = dict(sim_name=SIM, sim_dir=os.path.join(root, 'sim'), subsample_dir=os.path.join(root, 'subsample'), output_dir=os.path.join(root, 'out'), z_mock=0.5, force_mt=True, halo_lc=True)
                HOD_params = dict(tracer_flags=dict(LRG=True, ELG=False, QSO=False), LRG_params={}, want_ranks=want_ranks, want_AB=want_AB, want_shear=want_shear, want_expvel=want_expvel, want_rsd=True)
                desc = f'light-cone layout, slab with halo ids {"2**60+1+" if lbase else ""}{lslab} flags AB={want_AB} shear={want_shear} ranks={want_ranks} expvel={want_expvel}'
                payload = dict(slabs=[lslab], flags=list(lflags), base=int(lbase), lightcone=True)
                try:
                    with warnings.catch_warnings():
                        warnings.simplefilter('ignore')
                        b = AbacusHOD(sim_params, HOD_params)
                except Exception as e:  # noqa
                    chk.violation(f'lightcone-raises-{type(e).__name__}', f'{desc}: {type(e).__name__}: {e}', payload)
                    continue
                nrun += 1
                srt = sorted(lslab)
                hidl = (np.asarray(b.halo_data['hid']).astype(np.int64) - np.int64(lbase)).tolist()
                if hidl != srt:
                    chk.violation('lightcone-ids-not-increasing', f'{desc}: staged hid {hidl} is not {srt}', payload)
                    continue
                for name in ('hpos', 'hvel', 'hmass', 'hmultis', 'hrandoms', 'hsigma3d', 'hc', 'hrvir') + (('hdeltac', 'hfenv') if want_AB else ()) + (('hshear',) if want_shear else ()):
                    if not np.allclose(decode(name, b.halo_data[name]), np.asarray(srt, dtype=np.float64), rtol=1e-9, atol=1e-9):
                        chk.violation(f'lightcone-misaligned-{name}', f'{desc}: rows of {name} are not aligned with hid', payload)
                phid = np.asarray(b.particle_data['phid']).astype(np.int64) - np.int64(lbase)
                pinds = np.asarray(b.particle_data['pinds']).astype(np.int64)
                want_phid = [i for hs in parts_all for i in hs]
                if phid.tolist() != want_phid:
                    chk.violation('lightcone-particle-order', f'{desc}: particle host ids {phid.tolist()[:12]} are not those of the slab file {want_phid[:12]}', payload)
                elif np.any(pinds < 0) or np.any(pinds >= len(srt)) or not np.array_equal(np.asarray(srt)[np.clip(pinds, 0, len(srt) - 1)], phid):
                    chk.violation('lightcone-particle-host-index', f'{desc}: hid[pinds] != phid', payload)
                if b.params.get('origin') is None or not np.allclose(b.params['origin'], [-990.0, -990.0, -990.0]):
                    chk.violation('lightcone-origin', f'{desc}: params["origin"] = {b.params.get("origin")!r}, the header gives [-990, -990, -990]', payload)
    except Exception as e:  # noqa
        chk.violation(f'lightcone-block-raises-{type(e).__name__}', f'light-cone staging: {type(e).__name__}: {e}', {})
    # ---- extended coverage (beyond C12): the chunks of n_chunks <= nfiles tile the slab files (TLC: ChunkTheorem); union over chunks = every halo once
    try:
        et = "---- MODULE MC_HodChunks ----\nEXTENDS HodStaging\nVARIABLE v\nASSUME ChunkTheorem(16)\nInit == v = 0\nNext == v' = v\n====\n"
        run_tlc(chk, 'MC_HodChunks', module_text=et, cfg_text='CONSTANTS\n  Variant = "fixed"\nINIT Init\nNEXT Next\n', timeout=300)
        slabs = [[3, 10], [24], [17, 31], [45]]
        write_case(root, slabs, rng, False)
        sim_params = dict(sim_name=SIM, sim_dir=os.path.join(root, 'sim'), subsample_dir=os.path.join(root, 'subsample'), output_dir=os.path.join(root, 'out'), z_mock=0.5, force_mt=True)
        HOD_params = dict(tracer_flags=dict(LRG=True, ELG=False, QSO=False), LRG_params={}, want_ranks=False, want_AB=False, want_shear=False, want_expvel=False, want_rsd=True)
        problems = []
        for nch in (1, 2, 4):
            seen = []
            for c in range(nch):
                with warnings.catch_warnings():
                    warnings.simplefilter('ignore')
                    b = AbacusHOD(sim_params, HOD_params, chunk=c, n_chunks=nch)
                seen += np.asarray(b.halo_data['hid']).astype(int).tolist()
            if sorted(seen) != sorted(i for s_ in slabs for i in s_):
                problems.append(f'n_chunks={nch}: union of the chunks holds halos {sorted(seen)}')
        try:
            with warnings.catch_warnings():
                warnings.simplefilter('ignore')
                AbacusHOD(sim_params, HOD_params, chunk=2, n_chunks=3)
        except Exception as e:  # noqa
            problems.append(f'observation: 4 slab files with n_chunks=3 leave chunk 2 empty (ceil split) and the constructor raises {type(e).__name__}')
        chk.extended('HOD chunking tiles the slab files', not [p for p in problems if not p.startswith('observation')], '; '.join(problems))
    except Exception as e:  # noqa
        chk.extended('HOD chunking tiles the slab files', False, f'{type(e).__name__}: {e}')
    # ---- extended coverage (beyond C12): the writer of these slab files — prepare_sim.prepare_slab (spec/PrepareSim.tla)
    try:
        import prepsim
        prepsim.run(chk)
    except Exception as e:  # noqa
        chk.extended('prepare_sim.prepare_slab: subsample compaction, npstartA/npoutA re-basing and the hand-over to AbacusHOD staging', False, f'not evaluated: {type(e).__name__}: {str(e)[:300]}')
    # ---- extended coverage: configuration contract writer / reader (spec/HodConfig.tla)
    try:
        import hodconfig
        hodconfig.run(chk)
    except Exception as e:  # noqa
        chk.extended('prepare_sim.main / AbacusHOD configuration contract: redshift class, subsample directory, multi-tracer flag', False, f'not evaluated: {type(e).__name__}: {str(e)[:300]}')
    chk.part('staging_runs', runs=nrun, unsorted_arrangements=nontriv)
    chk.add_cases(nrun, nontrivial=nontriv, traces=nrun)


def replay(chk, path):
    d = json.load(open(path))
    print(d['what'])
    run(chk)
