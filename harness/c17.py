"""C17 — partition_parallel returns a stripe-ordered permutation of its input.

spec/Partition.tla.
  M1  TLC: histogram / transposed prefix sum / scatter as T interleaved workers over every input of
      length <= MaxLen: NoDoubleWrite, InBounds, StartsOK, RefinesD under every interleaving;
      controls: pointer table not transposed, histogram shared between threads, last stripe open above
  M2  TLC enumerates every input (length <= MaxLen, lattice incl. stripe boundaries and BoxSize) with D's
      expected starts / stripe membership -> compiled partition_parallel for coord x dtype x weights x
      sort x thread counts
  twin: the Python transliteration of IsPartitionOf, agreeing with TLC on all enumerated cases, judges
      larger random inputs (N <= 3000, 1..16 threads, npartition <= 12, non-dyadic boxes with ambiguous
      boundaries accepted on either side)
  schedule replay: the real source of partition_parallel with all internally allocated arrays shared,
      conflict-directed + random interleavings
"""
import json
import os
import warnings

import numpy as np

from common import relayout

from tlc import run_tlc, read_json

INVS = ['BlocksPartition', 'InBounds', 'NoDoubleWrite', 'StartsOK', 'RefinesD']


def cfg(maxlen, npart, rr, t, mut='none'):
    return (f'CONSTANTS\n  MaxLen = {maxlen}\n  NPART = {npart}\n  RR = {rr}\n  T = {t}\n  Mut = "{mut}"\nSPECIFICATION Spec\n'
            + ''.join(f'INVARIANT {i}\n' for i in INVS))


def make_input(xs, npart, R, coord, dtype, cell=0.5, wdtype=None):
    """lattice coordinate x -> x*cell on the partition axis; other axes carry a unique tag per particle"""
    n = len(xs)
    pos = np.empty((n, 3), dtype=dtype)
    for j in range(3):
        pos[:, j] = (np.arange(n) * 3 + j + 1) * 0.25
    pos[:, coord] = np.asarray(xs, dtype=np.float64) * cell
    # weights carry their own dtype; float64 weights are not representable in float32 (a cast through the position dtype is visible)
    wdtype = dtype if wdtype is None else wdtype
    w = ((np.arange(n) + 1) * (1.0 + 2.0 ** -40)).astype(wdtype) if np.dtype(wdtype) == np.float64 else (np.arange(n) + 1).astype(wdtype)
    return pos, w, npart * R * cell


def judge(pos, w, box, npart, coord, sort, res, R=None, xs=None, ambiguous=False, expect_starts=None):
    """None if `res` satisfies layer D for input (pos, w); else a description"""
    psort, starts, wsort = res
    n = len(pos)
    if psort.shape != pos.shape or psort.dtype != pos.dtype:
        return f'output shape/dtype {psort.shape}/{psort.dtype} differs from input'
    starts = np.asarray(starts)
    if starts.shape != (npart + 1,):
        return f'starts has shape {starts.shape}, expected ({npart + 1},)'
    if starts[0] != 0 or starts[-1] != n or np.any(np.diff(starts) < 0):
        return f'starts {starts.tolist()} is not non-decreasing from 0 to {n}'
    # recover the input index of each output row from the tag axes
    other = [j for j in range(3) if j != coord]
    tag = np.rint((psort[:, other[0]].astype(np.float64) / 0.25 - (other[0] + 1)) / 3).astype(np.int64) if n else np.zeros(0, np.int64)
    if n and (sorted(tag.tolist()) != list(range(n))):
        return 'output rows are not a permutation of the input rows'
    if n and not np.array_equal(psort, pos[tag]):
        return 'an output row mixes coordinates of different particles'
    if (w is None) != (wsort is None):
        return 'weights returned although none were given (or vice versa)'
    if w is not None and (wsort.dtype != w.dtype or wsort.shape != w.shape):
        return f'weights returned with dtype/shape {wsort.dtype}/{wsort.shape}, given {w.dtype}/{w.shape}'
    if w is not None and n and not np.array_equal(wsort, w[tag]):
        return 'weights are not aligned with the partitioned positions (or their values changed)'
    x = psort[:, coord].astype(np.float64)
    for s in range(npart):
        seg = x[starts[s]:starts[s + 1]]
        if len(seg) == 0:
            continue
        f = seg * npart / box
        k = np.minimum(np.floor(f), npart - 1)
        ok = (k == s)
        if ambiguous:
            onb = np.abs(f - np.rint(f)) < 1e-6
            ok = ok | (onb & (np.abs(np.minimum(np.rint(f), npart - 1) - s) <= 1) & ((np.rint(f) == s) | (np.rint(f) == s + 1) | (s == npart - 1)))
        if not np.all(ok):
            return f'stripe {s} holds coordinate(s) {seg[~ok][:3].tolist()} (box {box}, {npart} stripes)'
        if sort and np.any(np.diff(seg) < 0):
            return f'stripe {s} is not sorted on the partition coordinate'
    if expect_starts is not None and starts.tolist() != list(expect_starts):
        return f'starts {starts.tolist()} != expected {list(expect_starts)}'
    return None


def call(pp, pos, w, npart, box, coord, nthread, sort):
    p0, w0 = pos.copy(), None if w is None else w.copy()
    try:
        with warnings.catch_warnings():
            warnings.simplefilter('ignore')
            res = pp(pos, npart, box, weights=w, coord=coord, nthread=nthread, sort=sort)
    except Exception as e:  # noqa  (every input the harness builds is valid: an exception is a failure to return the permutation)
        return (np.zeros((0, 3), dtype=pos.dtype), np.zeros(0, dtype=np.int64), None), f'raises {type(e).__name__}: {e}'
    if not np.array_equal(pos, p0) or (w is not None and not np.array_equal(w, w0)):
        return res, 'input array modified'
    return res, None


def key_of(what, n, nthread):
    if what.startswith('raises'):
        k = 'raises'
    elif 'modified' in what:
        k = 'input-modified'
    elif 'weights' in what:
        k = 'weights'
    elif 'permutation' in what or 'mixes' in what:
        k = 'not-permutation'
    elif 'starts' in what:
        k = 'starts'
    elif 'sorted' in what:
        k = 'sort'
    elif 'stripe' in what:
        k = 'stripe-membership'
    else:
        k = 'other'
    return f'{k}-{"empty" if n == 0 else ("T>N" if nthread > n else "general")}'


def run(chk):
    from abacusnbody.analysis.tsc import partition_parallel
    rng = np.random.default_rng(chk.seed)
    chk.cov['rule'] = ('inputs = every sequence of <= MaxLen lattice coordinates (stripe boundaries, duplicates, BoxSize) per npartition, enumerated by TLC; '
                       'variants (coord, dtype, weights, sort, nthread) rotated over the cases and fully crossed on a subset; non-trivial = non-empty input; '
                       'distinct by (input, npartition, variant)')
    chk.assumptions += ['lattice coordinates with dyadic box so that the stripe key floor(x*np/box) is exact; non-dyadic boxes accept a boundary particle in either neighbour',
                        'the thread blocks are modelled as floor(N*t/T); any monotone block split gives the same observable result']
    # ---- M1
    insts = [(4, 2, 2, 2), (4, 3, 1, 3), (3, 1, 2, 2)] if chk.quick else [(5, 3, 1, 3), (5, 2, 2, 3), (4, 3, 2, 2), (6, 2, 1, 2), (3, 1, 2, 3)]
    for (ml, npart, rr, t) in insts:
        r = run_tlc(chk, 'Partition', cfg_text=cfg(ml, npart, rr, t), timeout=2400)
        chk.part(f'M1_len{ml}_np{npart}_R{rr}_T{t}', states=r['distinct'], generated=r['generated'], depth=r['depth'])
    for mut in ('notranspose', 'sharedhist', 'openlast'):
        r = run_tlc(chk, 'Partition', cfg_text=cfg(4, 2, 2, 2, mut), expect_violation=True, record=False, timeout=600)
        if r['outcome'] == 'ok':
            raise RuntimeError(f'positive control {mut} not rejected')
        chk.part(f'control_{mut}', outcome=r['outcome'], violated=r.get('violated'))
    # ---- M2
    cf = os.path.join(chk.scratch, 'cases.json')
    maxlen = 4 if chk.quick else 5
    text = f'---- MODULE MC_PartitionM2 ----\nEXTENDS Partition\nASSUME EmitCases({maxlen}, {{1, 2, 3}}, 2)\n====\n'
    run_tlc(chk, 'MC_PartitionM2', module_text=text, cfg_text=cfg(1, 1, 1, 1), env={'CASES_OUT': cf}, timeout=1200)
    cases = read_json(cf)
    chk.part('M2', cases=len(cases))
    variants = [(coord, dt, hw, so) for coord in (0, 1, 2) for dt in (np.float32, np.float64) for hw in (True, False) for so in (False, True)]
    threads = [1, 2, 3, 4, 5, 7, 8, 16]
    nrun = nontriv = 0
    for ci, c in enumerate(cases):
        xs, npart, R = c['xs'], c['np'], c['R']
        full = (ci % 97 == 0)
        vs = variants if full else [variants[ci % len(variants)], variants[(ci * 7 + 3) % len(variants)]]
        for (coord, dt, hw, so) in vs:
            pos, w, box = make_input(xs, npart, R, coord, dt, wdtype=[None, np.float64, np.float32][ci % 3])
            for t in (threads if full else [threads[(ci + coord) % len(threads)], 16 if ci % 2 else 1]):
                lay = (ci + t) % 3            # memory layout of the caller's arrays: contiguous / non-contiguous view / Fortran order
                pos, w = relayout(pos, lay), relayout(w, lay + 1)
                res, bad = call(partition_parallel, pos, w if hw else None, npart, box, coord, t, so)
                bad = bad or judge(pos, w if hw else None, box, npart, coord, so, res, expect_starts=c['starts'])
                if not bad:
                    # stripe membership exactly as TLC lists it
                    st = np.asarray(res[1])
                    other = [j for j in range(3) if j != coord][0]
                    tag = np.rint((res[0][:, other].astype(np.float64) / 0.25 - (other + 1)) / 3).astype(int) + 1 if len(xs) else np.zeros(0, int)
                    for s in range(npart):
                        if sorted(tag[st[s]:st[s + 1]].tolist()) != c['members'][s]:
                            bad = f'stripe {s} members {sorted(tag[st[s]:st[s + 1]].tolist())} != spec {c["members"][s]}'
                nrun += 1
                nontriv += 1 if xs else 0
                if bad:
                    chk.violation(key_of(bad, len(xs), t), f'xs={xs} np={npart} coord={coord} dtype={np.dtype(dt).name} weights={hw} sort={so} nthread={t}: {bad}',
                                  dict(xs=xs, np=npart, R=R, coord=coord, dtype=np.dtype(dt).name, wdtype=w.dtype.name, weights=hw, sort=so, nthread=t))
    chk.add_cases(nrun, nontrivial=nontriv, traces=nrun)
    chk.sample(dict(case=cases[len(cases) // 2]))
    chk.sample(dict(case=cases[-1]))
    chk.part('spec_to_code', runs=nrun)
    # ---- twin on larger random inputs (incl. non-dyadic boxes)
    nt = 0
    for rep in range(300 if chk.quick else 3000):
        npart = int(rng.integers(1, 13))
        R = 4
        n = int(rng.choice([0, 1, 2, 3, 7, 16, 17, 100, 1000, 3000]))
        xs = rng.integers(0, npart * R + 1, n)
        coord = int(rng.integers(0, 3))
        dt = [np.float32, np.float64][rep % 2]
        dyadic = rep % 3 != 0
        pos, w, box = make_input(xs, npart, R, coord, dt, cell=0.5 if dyadic else 1.0 / 3, wdtype=[None, np.float64, np.float32][(rep // 4) % 3])
        if not dyadic:
            box = dt(npart * R / 3.0)
            box = float(box)
        hw, so = bool(rep % 2), bool((rep // 2) % 2)
        t = int(rng.integers(1, 17))
        res, bad = call(partition_parallel, pos, w if hw else None, npart, box, coord, t, so)
        bad = bad or judge(pos, w if hw else None, box, npart, coord, so, res, ambiguous=not dyadic)
        nt += 1
        if bad:
            chk.violation(key_of(bad, n, t) + ('' if dyadic else '-nondyadic'), f'random N={n} np={npart} coord={coord} nthread={t} sort={so} dyadic={dyadic}: {bad}',
                          dict(xs=xs.tolist(), np=npart, R=R, coord=coord, dtype=np.dtype(dt).name, wdtype=w.dtype.name, weights=hw, sort=so, nthread=t, dyadic=dyadic))
    chk.add_cases(nt, traces=nt)
    chk.part('twin_random', runs=nt)
    # ---- very many stripes (more than 2**15 and 2**16: the stripe keys must not be narrowed), judged with a vectorised form of the same rule
    nbig = 0
    for npart in ((40000, 70000) if chk.quick else (32768, 32769, 40000, 65536, 70000, 200000)):
        for rep in range(2):
            n = 5000
            R = 2
            xs = rng.integers(0, npart * R + 1, n)
            xs[:8] = [0, npart * R, npart * R - 1, 32768 * R, 32767 * R, 65536 * R % (npart * R + 1), (npart - 1) * R, R]
            coord = rep
            dt = np.float64                      # float32 cannot hold these lattice coordinates exactly
            pos, w, box = make_input(xs, npart, R, coord, dt)
            t = [3, 16][rep]
            res, bad = call(partition_parallel, pos, w, npart, box, coord, t, bool(rep))
            nbig += 1
            if not bad:
                psort, starts, wsort = res
                starts = np.asarray(starts)
                if starts.shape != (npart + 1,) or starts[0] != 0 or starts[-1] != n or np.any(np.diff(starts) < 0):
                    bad = 'starts is not a non-decreasing sequence from 0 to N'
                else:
                    other = [j for j in range(3) if j != coord][0]
                    tag = np.rint((psort[:, other] / 0.25 - (other + 1)) / 3).astype(np.int64)
                    if sorted(tag.tolist()) != list(range(n)) or not np.array_equal(psort, pos[tag]) or not np.array_equal(wsort, w[tag]):
                        bad = 'output rows are not a permutation of the input rows (or weights misaligned)'
                    else:
                        stripe_of_row = np.searchsorted(starts, np.arange(n), side='right') - 1
                        want = np.minimum(np.floor(psort[:, coord] * npart / box), npart - 1).astype(np.int64)
                        if not np.array_equal(stripe_of_row, want):
                            i = int(np.argmax(stripe_of_row != want))
                            bad = f'stripe membership: x={float(psort[i, coord])} (stripe {int(want[i])}) found in stripe {int(stripe_of_row[i])}'
                        elif bool(rep) and np.any((np.diff(psort[:, coord]) < 0) & (np.diff(stripe_of_row) == 0)):
                            bad = 'a stripe is not sorted on the partition coordinate'
            if bad:
                chk.violation(key_of(bad, n, t) + '-many-stripes', f'random N={n} npartition={npart} coord={coord} nthread={t} sort={bool(rep)}: {bad}',
                              dict(xs=xs.tolist(), np=npart, R=R, coord=coord, dtype='float64', wdtype='float64', weights=True, sort=bool(rep), nthread=t, dyadic=True))
    chk.add_cases(nbig, traces=nbig)
    chk.part('many_stripes', runs=nbig)
    # ---- float64 positions a relative 1e-9 on either side of every interior stripe boundary, for stripe widths that are not exact in
    #      single precision: the stripe key must be computed in the precision of the positions (judged with exact rational arithmetic)
    from fractions import Fraction
    nnear = 0
    for (npart, box) in ((4, 10.0), (1000, 123.0), (7, 7.0), (3, 1.0), (12, 100.0)):
        bnd = np.array([s_ * box / npart for s_ in range(1, npart)], dtype=np.float64)
        if len(bnd) > 150:
            bnd = bnd[rng.choice(len(bnd), 150, replace=False)]
        xs = np.concatenate([bnd * (1 - 1e-9), bnd * (1 + 1e-9), rng.uniform(0, box, 50)])
        xs = xs[(xs >= 0) & (xs < box)]
        n = len(xs)
        for coord in (0, 2):
            pos = np.empty((n, 3), dtype=np.float64)
            for j in range(3):
                pos[:, j] = (np.arange(n) * 3 + j + 1) * 0.25
            pos[:, coord] = xs
            w = (np.arange(n) + 1).astype(np.float64)
            t = 1 + (npart + coord) % 5
            res, bad = call(partition_parallel, pos, w, npart, box, coord, t, False)
            nnear += 1
            if not bad:
                psort, starts, wsort = res
                starts = np.asarray(starts)
                other = [j for j in range(3) if j != coord][0]
                tag = np.rint((psort[:, other] / 0.25 - (other + 1)) / 3).astype(np.int64)
                if starts.shape != (npart + 1,) or starts[0] != 0 or starts[-1] != n or np.any(np.diff(starts) < 0) or sorted(tag.tolist()) != list(range(n)) or not np.array_equal(psort, pos[tag]):
                    bad = 'starts / permutation structure broken'
                else:
                    stripe_of_row = np.searchsorted(starts, np.arange(n), side='right') - 1
                    fb = Fraction(box)
                    want = np.array([min(int(Fraction(float(x_)) * npart / fb), npart - 1) for x_ in psort[:, coord]], dtype=np.int64)
                    if not np.array_equal(stripe_of_row, want):
                        i = int(np.argmax(stripe_of_row != want))
                        bad = f'stripe membership: x={float(psort[i, coord])!r} belongs to stripe {int(want[i])} (x*npartition/BoxSize = {float(Fraction(float(psort[i, coord])) * npart / fb)!r}) but was put in stripe {int(stripe_of_row[i])}'
            if bad:
                chk.violation(key_of(bad, n, t) + '-near-boundary-f8', f'float64 positions next to stripe boundaries, npartition={npart} BoxSize={box} coord={coord} nthread={t}: {bad}',
                              dict(kind='near-boundary', np=npart, box=box, coord=coord, nthread=t))
    chk.add_cases(nnear, traces=nnear)
    chk.part('near_boundary_f8', runs=nnear)
    # ---- schedule replay on the real source
    import sched
    share = ['keys', 'counts', 'pointers', 'psort', 'wsort', 'starts']
    nsch = 0
    picks = [c for c in cases if len(c['xs']) == maxlen and c['np'] >= 2][:: max(1, len(cases) // (12 if chk.quick else 60))]
    for c in picks:
        for t in (2, 3):
            for hw in (True, False):
                pos, w, box = make_input(c['xs'], c['np'], c['R'], 0, np.float64)

                def build(sc, hook, pos=pos, w=w, box=box, c=c, t=t, hw=hw):
                    fn = sched.threaded_source(partition_parallel, sc, share='*', overrides={'numba': _NumbaStub()})   # every array allocated outside the parallel loops is shared
                    fn.__globals__['__par'] = hook(sc.par)
                    return lambda: tuple(sched.unwrap(x) for x in fn(pos.copy(), c['np'], box, weights=(w.copy() if hw else None), coord=0, nthread=t, sort=False))

                def check(res, pos=pos, w=w, box=box, c=c, hw=hw):
                    return judge(pos, w if hw else None, box, c['np'], 0, False, res, expect_starts=c['starts'])
                try:
                    r = sched.explore(build, check, max_schedules=10, seed=chk.seed)
                except Exception as e:  # noqa  (a restructured source the replayer cannot drive is a loss of coverage, not a violation)
                    if not nsch:
                        chk.note(f'partition_parallel schedule replay not available: {type(e).__name__}: {str(e)[:200]}')
                    continue
                nsch += r['schedules']
                if r['problem']:
                    chk.violation('schedule-' + key_of(r['problem'], len(c['xs']), t), f'xs={c["xs"]} np={c["np"]} nthread={t} weights={hw}: {r["problem"]}',
                                  dict(kind='schedule', xs=c['xs'], np=c['np'], R=c['R'], nthread=t, weights=hw))
    chk.part('schedule_replay', schedules=nsch, inputs=len(picks) * 4)
    chk.add_cases(nsch)


class _NumbaStub:
    """stands in for the numba module inside the interpreted kernel source"""
    class config:
        NUMBA_NUM_THREADS = 16

    @staticmethod
    def set_num_threads(n):
        pass

    @staticmethod
    def prange(n):
        return range(n)


def replay(chk, path):
    from abacusnbody.analysis.tsc import partition_parallel
    d = json.load(open(path))
    p = d['payload']
    if 'xs' not in p:                       # schedule / near-boundary / crash replays: re-run the check
        print(d.get('what', ''))
        return run(chk)
    dt = np.dtype(p.get('dtype', 'float64')).type
    pos, w, box = make_input(p['xs'], p['np'], p['R'], p.get('coord', 0), dt, cell=0.5 if p.get('dyadic', True) else 1.0 / 3, wdtype=(np.dtype(p['wdtype']).type if p.get('wdtype') else None))
    res, bad = call(partition_parallel, pos, w if p['weights'] else None, p['np'], box, p.get('coord', 0), p['nthread'], p.get('sort', False))
    bad = bad or judge(pos, w if p['weights'] else None, box, p['np'], p.get('coord', 0), p.get('sort', False), res, ambiguous=not p.get('dyadic', True))
    print('replay:', bad)
    if bad:
        chk.violation(d['key'], bad, p)
