"""Shared pieces for C09 / C10: HOD parameter sets, synthetic halo / particle tables, widths via the package's own
occupation functions, the formulas of the property for the galaxy fields."""
import numpy as np

LBOX = 2000.0
VELZ2KMS = 2000.0 * 0.0375          # velz2kms: any positive number

LRG = dict(logM_cut=13.0, logM1=14.0, sigma=0.5, alpha=1.0, kappa=0.5, alpha_c=0.3, alpha_s=0.8, s=0.1, s_v=0.05, s_p=-0.05, s_r=0.02,
           Acent=0.1, Asat=-0.1, Bcent=0.05, Bsat=0.07, ic=0.6)
ELG = dict(p_max=0.5, Q=100.0, logM_cut=11.8, kappa=1.0, sigma=0.4, logM1=13.2, alpha=0.9, gamma=3.0, A_s=1.0, alpha_c=0.2, alpha_s=1.1,
           s=-0.1, s_v=0.03, s_p=0.04, s_r=-0.02, Acent=-0.05, Asat=0.06, Bcent=0.02, Bsat=-0.03, Ccent=0.03, Csat=0.02, ic=0.5,
           logM1_EE=13.0, alpha_EE=0.8, logM1_EL=13.4, alpha_EL=1.0)
QSO = dict(logM_cut=12.5, kappa=1.0, sigma=0.6, logM1=13.6, alpha=1.0, alpha_c=0.1, alpha_s=0.9, s=0.05, s_v=-0.04, s_p=0.02, s_r=0.01,
           Acent=0.07, Asat=0.03, Bcent=-0.02, Bsat=0.04, ic=0.25)
TRACERS = {'LRG': LRG, 'ELG': ELG, 'QSO': QSO}
ORDER = ['LRG', 'ELG', 'QSO']


def params(origin=None):
    return dict(z=0.5, velz2kms=VELZ2KMS, Lbox=LBOX, origin=origin, Mpart=2.0e9, chunk=-1)


def cent_widths(mass, multis, deltac, fenv, shear, tracers):
    """slice widths of the central rule, per tracer (0 for tracers not in `tracers`): the package's own mean-occupation
    functions at the host mass and secondary terms, times incompleteness and multiplicity"""
    from abacusnbody.hod import GRAND_HOD as G
    n = len(mass)
    w = np.zeros((n, 3))
    for i in range(n):
        if 'LRG' in tracers:
            p = tracers['LRG']
            w[i, 0] = G.n_cen_LRG(mass[i], p['logM_cut'] + p.get('Acent', 0) * deltac[i] + p.get('Bcent', 0) * fenv[i], p['sigma']) * p.get('ic', 1.0) * multis[i]
        if 'ELG' in tracers:
            p = tracers['ELG']
            w[i, 1] = G.N_cen_ELG_v1(mass[i], p['p_max'], p['Q'], p['logM_cut'] + p.get('Acent', 0) * deltac[i] + p.get('Bcent', 0) * fenv[i] + p.get('Ccent', 0) * shear[i],
                                     p['sigma'], p['gamma']) * p.get('ic', 1.0) * multis[i]
        if 'QSO' in tracers:
            p = tracers['QSO']
            w[i, 2] = G.N_cen_QSO(mass[i], p['logM_cut'] + p.get('Acent', 0) * deltac[i] + p.get('Bcent', 0) * fenv[i], p['sigma']) * p.get('ic', 1.0) * multis[i]
    return w


def sat_widths(hmass, weights, deltac, fenv, shear, ranks, enable_ranks, keep_cent, tracers):
    from abacusnbody.hod import GRAND_HOD as G
    n = len(hmass)
    w = np.zeros((n, 3))
    for i in range(n):
        def deco(p):
            return (1 + p['s'] * ranks['pranks'][i] + p['s_v'] * ranks['pranksv'][i] + p['s_p'] * ranks['pranksp'][i] + p['s_r'] * ranks['pranksr'][i]) if enable_ranks else 1.0
        if 'LRG' in tracers:
            p = tracers['LRG']
            M1 = 10 ** (p['logM1'] + p.get('Asat', 0) * deltac[i] + p.get('Bsat', 0) * fenv[i])
            lc = p['logM_cut'] + p.get('Acent', 0) * deltac[i] + p.get('Bcent', 0) * fenv[i]
            w[i, 0] = G.n_sat_LRG_modified(hmass[i], lc, 10 ** lc, M1, p['sigma'], p['alpha'], p['kappa']) * weights[i] * p.get('ic', 1.0) * deco(p)
        if 'ELG' in tracers:
            p = tracers['ELG']
            lc = p['logM_cut'] + p.get('Acent', 0) * deltac[i] + p.get('Bcent', 0) * fenv[i] + p.get('Ccent', 0) * shear[i]
            if keep_cent[i] == 1:
                M1, al = 10 ** (p.get('logM1_EL', p['logM1']) + p.get('Asat', 0) * deltac[i] + p.get('Bsat', 0) * fenv[i]), p.get('alpha_EL', p['alpha'])
            elif keep_cent[i] == 2:
                M1, al = 10 ** (p.get('logM1_EE', p['logM1']) + p.get('Asat', 0) * deltac[i] + p.get('Bsat', 0) * fenv[i]), p.get('alpha_EE', p['alpha'])
            else:
                M1, al = 10 ** (p['logM1'] + p.get('Asat', 0) * deltac[i] + p.get('Bsat', 0) * fenv[i] + p.get('Csat', 0) * shear[i]), p['alpha']
            w[i, 1] = G.N_sat_elg(hmass[i], 10 ** lc, p['kappa'], M1, al, p['A_s']) * weights[i] * p.get('ic', 1.0) * deco(p)
        if 'QSO' in tracers:
            p = tracers['QSO']
            M1 = 10 ** (p['logM1'] + p.get('Asat', 0) * deltac[i] + p.get('Bsat', 0) * fenv[i])
            lc = p['logM_cut'] + p.get('Acent', 0) * deltac[i] + p.get('Bcent', 0) * fenv[i]
            w[i, 2] = G.N_sat_generic(hmass[i], 10 ** lc, p['kappa'], M1, p['alpha']) * weights[i] * p.get('ic', 1.0) * deco(p)
    return w


def markers(w):
    """cumulative slice edges, accumulated in the stacking order LRG, ELG, QSO"""
    m = np.zeros((len(w), 4))
    m[:, 1] = w[:, 0]
    m[:, 2] = m[:, 1] + w[:, 1]
    m[:, 3] = m[:, 2] + w[:, 2]
    return m


def place_u(m_row, W, u_abs, variant):
    """a real random number with the same order relations to the real edges m_row as the abstract u has to Cum(W, .).
    returns None when the relation cannot be realised (e.g. beyond the top edge when it is >= 1)"""
    cum = [0, 2 * W[0], 2 * (W[0] + W[1]), 2 * (W[0] + W[1] + W[2])]
    if u_abs == 0:
        return 0.0
    for k in range(1, 4):
        if u_abs == cum[k] and (k == 1 or cum[k] > cum[k - 1] or True):
            # exactly on edge k (take the lowest such k: equal abstract edges are equal real edges)
            return float(m_row[k])
    lo = max([k for k in range(4) if cum[k] < u_abs])
    hi = [k for k in range(1, 4) if cum[k] > u_abs]
    a = m_row[lo]
    b = m_row[hi[0]] if hi else 1.0
    if not hi and a >= 1.0:
        return None
    if not (b > a):
        return None
    if variant == 0:
        return float(0.5 * (a + b))
    # just beyond the lower edge / just inside the upper edge: 1e-12 relative — far above the rounding differences between this
    # computation of the edge and the kernel's (fastmath may reassociate the products), far below any slice width of interest
    d = 1e-12 * max(abs(a), abs(b))
    if not (2 * d < (b - a)):
        return float(0.5 * (a + b))
    return float(a + d) if variant == 1 else float(b - d)


def wrap(x, L):
    x = np.where(x >= L / 2, x - L, x)
    return np.where(x < -L / 2, x + L, x)


def expected_fields(pos, vbase, dv, alpha, rsd, origin):
    """galaxy position / velocity by the documented formulas: v = vbase + alpha * dv; RSD moves the line of sight only"""
    v = vbase + alpha * dv
    p = pos.copy()
    if rsd and origin is not None:
        n = p - np.asarray(origin)[None, :]
        n /= np.sqrt((n ** 2).sum(axis=1))[:, None]
        proj = (v * n).sum(axis=1) / VELZ2KMS
        p = p + proj[:, None] * n
    elif rsd:
        p[:, 2] = wrap(p[:, 2] + v[:, 2] / VELZ2KMS, LBOX)
    return p, v


def make_halos(rng, n, multis=None):
    h = dict(
        hpos=rng.uniform(-LBOX / 2, LBOX / 2, (n, 3)),
        hvel=rng.normal(0, 300, (n, 3)),
        hmass=10 ** rng.uniform(11.5, 14.5, n),
        hid=np.arange(n, dtype=np.int64) + 100000,
        hmultis=np.ones(n) if multis is None else np.asarray(multis, dtype=np.float64),
        hrandoms=rng.random(n),
        hveldev=rng.normal(0, 100, (n, 3)),
        hdeltac=rng.normal(0, 0.5, n), hfenv=rng.normal(0, 0.5, n), hshear=rng.normal(0, 0.5, n),
        hsigma3d=rng.uniform(100, 500, n), hc=rng.uniform(3, 10, n), hrvir=rng.uniform(0.1, 2, n),
    )
    return h


def make_particles(rng, halos, n, hosts=None):
    H = len(halos['hmass'])
    pinds = rng.integers(0, max(H, 1), n) if hosts is None else np.asarray(hosts, dtype=np.int64)
    pinds = np.sort(pinds) if hosts is None else pinds
    p = dict(
        ppos=rng.uniform(-LBOX / 2, LBOX / 2, (n, 3)),
        pvel=rng.normal(0, 400, (n, 3)),
        phvel=halos['hvel'][pinds] if n else np.zeros((0, 3)),
        phmass=halos['hmass'][pinds] if n else np.zeros(0),
        phid=halos['hid'][pinds] if n else np.zeros(0, dtype=np.int64),
        pweights=rng.choice([0.5, 1.0, 2.0], n) if n else np.zeros(0),
        prandoms=rng.random(n),
        pdeltac=halos['hdeltac'][pinds] if n else np.zeros(0), pfenv=halos['hfenv'][pinds] if n else np.zeros(0),
        pshear=halos['hshear'][pinds] if n else np.zeros(0),
        pranks=rng.uniform(-1, 1, n), pranksv=rng.uniform(-1, 1, n), pranksp=rng.uniform(-1, 1, n), pranksr=rng.uniform(-1, 1, n), pranksc=rng.uniform(-1, 1, n),
        pinds=pinds.astype(np.int64),
    )
    return p


def run_hod(halos, parts, tracers, Nthread, rsd=True, origin=None, enable_ranks=False):
    from abacusnbody.hod.GRAND_HOD import gen_gal_cat
    return gen_gal_cat({k: v.copy() for k, v in halos.items()}, {k: v.copy() for k, v in parts.items()}, tracers, params(origin),
                       Nthread=Nthread, enable_ranks=enable_ranks, rsd=rsd, nfw=False, write_to_disk=False, verbose=False)
