"""C16 — read_asdf returns exactly the requested particle columns.

spec/ReadAsdf.tla: a decision table (layer D) over the whole configuration space: raw columns present in the file x
colname argument x load argument x deprecated load_pos/load_vel flags -> Error | exact column set.
  M2  TLC enumerates every configuration (3179) with its outcome and checks the table's sanity theorems
  spec->code: one real ASDF file per raw-column set (31 files, snapshot and light-cone headers); read_asdf is called
      for every configuration; error/no error, the column set, the row count, the values (against the direct decoders
      verified by C04/C15), value independence from co-requested columns, and the metadata are compared
"""
import contextlib
import io
import json
import os
import warnings

import numpy as np

from tlc import run_tlc, read_json

BOX, VELZ, PPD = 1000.0, 1100.0, 1024


def make_raw(rng):
    n = 11
    rv = rng.integers(-2 ** 31, 2 ** 31, (n, 3), dtype=np.int64).astype(np.int32)
    # pack9: header, 3 particles, header, 2 particles
    def pack(f):
        return [f[0] // 16, (f[0] % 16) + 16 * (f[1] // 256), f[1] % 256, f[2] // 16, (f[2] % 16) + 16 * (f[3] // 256), f[3] % 256,
                f[4] // 16, (f[4] % 16) + 16 * (f[5] // 256), f[5] % 256]
    recs = [pack([4090, 48 + 5, 48 + 1000, 48 + 1, 48 + 2, 48 + 3])]
    recs += [pack([int(x) for x in rng.integers(0, 4080, 1)] + [int(x) for x in rng.integers(0, 4096, 5)]) for _ in range(3)]
    recs += [pack([4095, 48 + 5, 48 + 900, 48 + 4, 48, 48 + 2])]
    recs += [pack([int(x) for x in rng.integers(0, 4080, 1)] + [int(x) for x in rng.integers(0, 4096, 5)]) for _ in range(2)]
    p9 = np.array(recs, dtype=np.uint8)
    ppid = rng.integers(0, 2 ** 63, 7, dtype=np.int64).astype(np.uint64)
    pid = rng.integers(0, 2 ** 63, 9, dtype=np.int64).astype(np.uint64)
    other = rng.random(5)
    return dict(rvint=rv, pack9=p9, packedpid=ppid, pid=pid, other=other)


def direct(raw, col, dt):
    """expected columns by calling the (separately verified) decoders directly"""
    from abacusnbody.data.bitpacked import unpack_rvint, unpack_pids
    from abacusnbody.data.pack9 import unpack_pack9
    if col == 'rvint':
        p, v = unpack_rvint(raw['rvint'], BOX, float_dtype=dt)
        return dict(pos=p, vel=v), len(raw['rvint'])
    if col == 'pack9':
        p, v = unpack_pack9(raw['pack9'], BOX, VELZ, float_dtype=dt)
        return dict(pos=p, vel=v), len(p)
    d = unpack_pids(raw[col], box=BOX, ppd=PPD, pid=True, lagr_pos=True, tagged=True, density=True, lagr_idx=True, float_dtype=dt)
    d['aux'] = raw[col]
    return d, len(raw[col])


def run(chk):
    import asdf
    from abacusnbody.data.read_abacus import read_asdf
    rng = np.random.default_rng(chk.seed)
    chk.cov['rule'] = ('configurations = (set of raw columns in the file, colname, load, load_pos, load_vel) enumerated exhaustively by TLC (requests the detected '
                       'raw column cannot provide are pruned); each executed on real files with snapshot and light-cone headers; non-trivial = configuration that '
                       'must not raise; distinct by configuration x header kind x float type')
    chk.assumptions += ['the decoders themselves are verified by C04 / C15; here values are compared with calling them directly on the raw column',
                        "naming the unknown raw column 'other' explicitly, and requesting columns a file type cannot provide, are outside the table",
                        'a deprecated flag left unset next to an explicit one is under-specified: either outcome accepted']
    cf = os.path.join(chk.scratch, 'cases.json')
    text = ("---- MODULE MC_ReadAsdf ----\nEXTENDS ReadAsdf\nVARIABLE v\nASSUME TableTheorems\nASSUME Emit(0)\nInit == v = 0\nNext == v' = v\n====\n")
    run_tlc(chk, 'MC_ReadAsdf', module_text=text, cfg_text='INIT Init\nNEXT Next\n', env={'CASES_OUT': cf}, timeout=600)
    cases = read_json(cf)
    chk.cov['states'] += len(cases)
    chk.cov['transitions'] += len(cases)
    chk.cov['exhaustive'] = True
    chk.part('M2', configurations=len(cases), must_raise=sum(1 for c in cases if c['out']['error']))
    raw = make_raw(rng)
    headers = {
        'snapshot': {'BoxSize': BOX, 'VelZSpace_to_kms': VELZ, 'ppd': float(PPD), 'SimName': 'verif', 'OutputType': 'TimeSlice'},
        # ppd is stored as NP**(1/3): a float that may sit just below the integer it stands for
        'lightcone': {'BoxSize': BOX, 'VelZSpace_to_kms': VELZ, 'ppd': float(np.nextafter(float(PPD), 0.0)), 'SimName': 'verif', 'OutputType': 'LightCone', 'SimSet': 'AbacusSummit',
                      'ParticleSubsampleA': 0.03, 'ParticleSubsampleB': 0.07},
    }
    files = {}
    for c in cases:
        key = tuple(c['present'])
        if key in files:
            continue
        for hk, h in headers.items():
            fn = os.path.join(chk.scratch, f'{"_".join(key)}_{hk}.asdf')
            asdf.AsdfFile({'header': dict(h), 'data': {k: raw[k] for k in key}}).write_to(fn)
            files[(key, hk)] = fn
        files[key] = True
    nrun = nontriv = 0
    seen_vals = {}
    with warnings.catch_warnings():
        warnings.simplefilter('ignore')
        for ci, c in enumerate(cases):
            key = tuple(c['present'])
            for hk in (('snapshot', 'lightcone') if (not chk.quick or ci % 5 == 0) else ('snapshot',)):
                dt = [np.float32, np.float64][(ci + (hk == 'lightcone')) % 2]
                kw = {}
                if c['load'] != ['<none>']:
                    # vary the container type / order of the request
                    kw['load'] = list(reversed(c['load'])) if ci % 2 else tuple(c['load'])
                if c['colname'] != 'none':
                    kw['colname'] = c['colname']
                if c['lp'] != 'unset':
                    kw['load_pos'] = c['lp'] == 'T'
                if c['lv'] != 'unset':
                    kw['load_vel'] = c['lv'] == 'T'
                desc = f'present={c["present"]} colname={c["colname"]} load={c["load"]} load_pos={c["lp"]} load_vel={c["lv"]} header={hk}'
                tagk = ('auto' if c['colname'] == 'none' else 'named') + ('-flags' if (c['lp'] != 'unset' or c['lv'] != 'unset') else '') + ('-multi' if len(c['present']) > 1 else '')
                try:
                    with contextlib.redirect_stdout(io.StringIO()):
                        t = read_asdf(files[(key, hk)], dtype=dt, verbose=bool((ci // 3) % 2), **kw)          # verbose only prints: nothing else may depend on it
                    err = None
                except Exception as e:  # noqa
                    t, err = None, f'{type(e).__name__}: {e}'
                nrun += 1
                exp = c['out']
                if exp['error']:
                    if err is None:
                        chk.violation(f'no-error-{tagk}', f'{desc}: expected an error (several / none of the known raw columns, or a missing column), got columns {t.colnames}', dict(cfg=c, header=hk))
                    continue
                nontriv += 1
                if err is not None:
                    chk.violation(f'raises-{tagk}-{exp["col"]}', f'{desc}: raised {err}', dict(cfg=c, header=hk))
                    continue
                ok_sets = [sorted(s) for s in exp['cols']]
                if sorted(t.colnames) not in ok_sets:
                    chk.violation(f'columns-{tagk}-{exp["col"]}', f'{desc}: table columns {sorted(t.colnames)}; expected {ok_sets}', dict(cfg=c, header=hk))
                    continue
                want, nrows = direct(raw, exp['col'], dt)
                if len(t.colnames) and len(t) != nrows:
                    chk.violation(f'rows-{tagk}-{exp["col"]}', f'{desc}: {len(t)} rows; the file holds {nrows} particles', dict(cfg=c, header=hk))
                    continue
                for col in t.colnames:
                    got = np.asarray(t[col])
                    if got.shape != want[col].shape or not np.array_equal(got, want[col]):
                        chk.violation(f'values-{exp["col"]}-{col}', f'{desc}: column {col} differs from the direct decode of the raw column (depends on co-requested columns?)', dict(cfg=c, header=hk))
                    if np.issubdtype(got.dtype, np.floating) and got.dtype != dt:
                        chk.violation(f'dtype-{exp["col"]}-{col}', f'{desc}: column {col} has dtype {got.dtype}, requested {np.dtype(dt).name}', dict(cfg=c, header=hk))
                if hk == 'lightcone' and not np.isclose(t.meta.get('SubsampleFraction', np.nan), 0.03 + 0.07):
                    chk.violation('meta-subsample-fraction', f'{desc} verbose={bool((ci // 3) % 2)}: table.meta["SubsampleFraction"] = {t.meta.get("SubsampleFraction")!r}; an AbacusSummit light-cone file carries A + B = 0.1', dict(cfg=c, header=hk))
                for k, v in headers[hk].items():
                    if t.meta.get(k) != v:
                        chk.violation(f'meta-{hk}', f'{desc}: table.meta[{k!r}] = {t.meta.get(k)!r}, file header has {v!r}', dict(cfg=c, header=hk))
                        break
            if ci % 400 == 0:
                chk.sample(dict(config={k: c[k] for k in ('present', 'colname', 'load', 'lp', 'lv')}, expected=c['out']))
    # ---- an explicit ppd= argument takes precedence over the header value (the Lagrangian positions are decoded with it)
    from abacusnbody.data.bitpacked import unpack_pids
    nppd = 0
    with warnings.catch_warnings():
        warnings.simplefilter('ignore')
        for col in ('packedpid', 'pid'):
            for hk in ('snapshot', 'lightcone'):
                if ((col,), hk) not in files:
                    continue
                for ppd_arg in (2 * PPD, PPD // 2, float(PPD) * 3):
                    for dt in (np.float32, np.float64):
                        try:
                            t = read_asdf(files[((col,), hk)], dtype=dt, verbose=False, load=('lagr_pos', 'pid'), ppd=ppd_arg)
                        except Exception as e:  # noqa
                            chk.violation(f'ppd-argument-raises-{col}', f'read_asdf({col} file, load=(lagr_pos, pid), ppd={ppd_arg!r}) header={hk}: {type(e).__name__}: {e}', dict(col=col, header=hk))
                            continue
                        nppd += 1
                        want = unpack_pids(raw[col], box=BOX, ppd=int(ppd_arg), lagr_pos=True, float_dtype=dt)['lagr_pos']
                        if not np.array_equal(np.asarray(t['lagr_pos']), want):
                            chk.violation(f'ppd-argument-ignored-{col}', f'read_asdf({col} file, load=(lagr_pos, pid), ppd={ppd_arg!r}) header={hk} (header ppd {headers[hk]["ppd"]!r}): lagr_pos is not the decode with the ppd that was passed', dict(col=col, header=hk))
    chk.part('ppd_argument', reads=nppd)
    nrun += nppd
    # ---- a non-default data_key (the columns live in another subtree, as in files that keep 'rv_data' / 'pid_data' apart): detection, decoding and the
    #      decoy 'data' subtree (holding ANOTHER raw column) must not interfere
    ndk = 0
    with warnings.catch_warnings():
        warnings.simplefilter('ignore')
        fnk = os.path.join(chk.scratch, 'datakey.asdf')
        asdf.AsdfFile({'header': dict(headers['snapshot']), 'data': {'rvint': raw['rvint']}, 'pid_data': {'packedpid': raw['packedpid']}, 'rv_data': {'pack9': raw['pack9']}}).write_to(fnk)
        fnk2 = os.path.join(chk.scratch, 'datakey2.asdf')
        asdf.AsdfFile({'header': dict(headers['snapshot']), 'pid_data': {'pid': raw['pid']}}).write_to(fnk2)
        for fn_, dk_, col_, kw_ in ((fnk, 'pid_data', 'packedpid', {}), (fnk, 'rv_data', 'pack9', {}), (fnk, 'pid_data', 'packedpid', dict(load=('pid', 'lagr_pos'))), (fnk2, 'pid_data', 'pid', {}),
                                    (fnk, 'data', 'rvint', {}), (fnk, 'rv_data', 'pack9', dict(load=('vel',)))):
            for dt in (np.float32, np.float64):
                desc = f'read_asdf(data_key={dk_!r}, {kw_}) on a file with subtrees data / pid_data / rv_data'
                try:
                    t = read_asdf(fn_, dtype=dt, verbose=False, **({} if dk_ == 'data' else dict(data_key=dk_)), **kw_)
                except Exception as e:  # noqa
                    chk.violation(f'data-key-raises-{col_}', f'{desc}: {type(e).__name__}: {e}', dict(data_key=dk_))
                    continue
                ndk += 1
                want, nrows = direct(raw, col_, dt)
                if len(t) != nrows:
                    chk.violation(f'data-key-rows-{col_}', f'{desc}: {len(t)} rows, the {col_} column of that subtree holds {nrows} particles', dict(data_key=dk_))
                    continue
                for cn in t.colnames:
                    if cn not in want or not np.array_equal(np.asarray(t[cn]), want[cn]):
                        chk.violation(f'data-key-values-{col_}', f'{desc}: column {cn} is not the decode of the {col_} column of subtree {dk_!r}', dict(data_key=dk_))
                        break
    chk.part('data_key', reads=ndk)
    nrun += ndk
    # ---- files without particles (an empty light-cone slab): the table still has exactly the requested columns, with no rows
    empty = dict(rvint=np.zeros((0, 3), dtype=np.int32), pack9=np.zeros((0, 9), dtype=np.uint8), packedpid=np.zeros(0, dtype=np.uint64), pid=np.zeros(0, dtype=np.uint64))
    nempty = 0
    with warnings.catch_warnings():
        warnings.simplefilter('ignore')
        for col, arr in empty.items():
            for hk in ('snapshot', 'lightcone'):
                fn = os.path.join(chk.scratch, f'empty_{col}_{hk}.asdf')
                asdf.AsdfFile({'header': dict(headers[hk]), 'data': {col: arr}}).write_to(fn)
                for ci, c in enumerate(cases):
                    if c['present'] != [col] or c['out']['error'] or (chk.quick and ci % 3):
                        continue
                    kw = {}
                    if c['load'] != ['<none>']:
                        kw['load'] = tuple(c['load'])
                    if c['colname'] != 'none':
                        kw['colname'] = c['colname']
                    if c['lp'] != 'unset':
                        kw['load_pos'] = c['lp'] == 'T'
                    if c['lv'] != 'unset':
                        kw['load_vel'] = c['lv'] == 'T'
                    dt = [np.float32, np.float64][ci % 2]
                    desc = f'EMPTY file present=[{col}] colname={c["colname"]} load={c["load"]} load_pos={c["lp"]} load_vel={c["lv"]} header={hk}'
                    try:
                        t = read_asdf(fn, dtype=dt, verbose=False, **kw)
                    except Exception as e:  # noqa
                        chk.violation(f'empty-raises-{col}', f'{desc}: raised {type(e).__name__}: {e}', dict(cfg=c, header=hk))
                        continue
                    nempty += 1
                    ok_sets = [sorted(s_) for s_ in c['out']['cols']]
                    if sorted(t.colnames) not in ok_sets or len(t) != 0:
                        chk.violation(f'empty-columns-{col}', f'{desc}: table columns {sorted(t.colnames)} with {len(t)} rows; expected {ok_sets} with 0 rows', dict(cfg=c, header=hk))
                        continue
                    for cn in t.colnames:
                        a = np.asarray(t[cn])
                        if cn in ('pos', 'vel', 'lagr_pos') and (a.shape != (0, 3) or a.dtype != dt):
                            chk.violation(f'empty-shape-{col}', f'{desc}: column {cn} has shape {a.shape} dtype {a.dtype}; expected (0, 3) {np.dtype(dt).name}', dict(cfg=c, header=hk))
    chk.part('empty_files', reads=nempty)
    nrun += nempty
    chk.part('spec_to_code', reads=nrun, files=len([k for k in files if len(k) == 2 and isinstance(k[1], str)]))
    chk.add_cases(nrun, nontrivial=nontriv, traces=nrun)


def replay(chk, path):
    d = json.load(open(path))
    print(d['what'])
    run(chk)
