"""Extended coverage (hosted by C12): the configuration contract between prepare_sim.main (writer) and AbacusHOD (reader) — spec/HodConfig.tla.

  M1  TLC: the two separately transcribed redshift tables classify every redshift identically; the writer's string-built directory
      equals the reader's path for every known redshift when subsample_dir ends with '/', and differs without it; multi-tracer flag
  M2  TLC emits (redshift, light-cone) cases with class and directory names, and the tracer-flag table; each is replayed into the REAL
      prepare_sim.main (prepare_slab and the process pool replaced by recorders) and into the REAL AbacusHOD constructor + staging
      (subsample files placed where the writer was told to write them)
Reported with chk.extended (never a VIOLATION of C12).
"""
import concurrent.futures
import contextlib
import io
import os
import shutil
import warnings

import numpy as np

from tlc import run_tlc, read_json

NAME = 'prepare_sim.main / AbacusHOD configuration contract: redshift class, subsample directory, multi-tracer flag'
SIM = 'SimC'


class _Inline:
    def __init__(self, *a, **k):
        pass

    def __enter__(self):
        return self

    def __exit__(self, *a):
        return False

    def submit(self, fn, *a, **k):
        f = concurrent.futures.Future()
        try:
            f.set_result(fn(*a, **k))
        except Exception as e:  # noqa
            f.set_exception(e)
        return f


def writer(root, z, lc, flags, subsample_dir):
    """runs the real prepare_sim.main with prepare_slab / the process pool replaced; returns the recorded calls or the exception name"""
    import yaml
    from abacusnbody.hod import prepare_sim as ps
    cfgf = os.path.join(root, 'cfg.yaml')
    yaml.safe_dump(dict(sim_params=dict(sim_name=SIM, sim_dir=os.path.join(root, 'sim') + '/', subsample_dir=subsample_dir, z_mock=z, cleaned_halos=False, halo_lc=lc),
                        HOD_params=dict(tracer_flags=flags, want_ranks=False, want_AB=False, want_shear=False),
                        prepare_sim=dict(Nparallel_load=1, Nthread_per_load=1)), open(cfgf, 'w'))
    rec = []
    old = (ps.prepare_slab, concurrent.futures.ProcessPoolExecutor)
    ps.prepare_slab = lambda i, **kw: rec.append(dict(i=i, **kw)) or 0
    concurrent.futures.ProcessPoolExecutor = _Inline
    try:
        with contextlib.redirect_stdout(io.StringIO()):
            ps.main(cfgf)
        return rec, None
    except Exception as e:  # noqa
        return rec, f'{type(e).__name__}: {e}'
    finally:
        ps.prepare_slab, concurrent.futures.ProcessPoolExecutor = old


def run(chk):
    import asdf
    import c12
    problems, obs = [], []
    cf = os.path.join(chk.scratch, 'hodconfig_cases.json')
    text = "---- MODULE MC_HodConfig ----\nEXTENDS HodConfig\nVARIABLE v\nASSUME Theorems\nASSUME Emit(0)\nInit == v = 0\nNext == v' = v\n====\n"
    run_tlc(chk, 'MC_HodConfig', module_text=text, cfg_text='INIT Init\nNEXT Next\n', env={'CASES_OUT': cf}, timeout=600)
    cases = read_json(cf)
    chk.part('hodconfig_M1', redshift_cases=len(cases['z']), flag_cases=len(cases['flags']), formats_part_from=min(cases['differ']) if cases['differ'] else None)
    root = os.path.join(chk.scratch, 'hodconfig')
    shutil.rmtree(root, ignore_errors=True)
    rng = np.random.default_rng(chk.seed)
    from abacusnbody.hod.abacus_hod import AbacusHOD
    import logging
    logging.getLogger('AbacusHOD').setLevel(logging.ERROR)
    nw = nr = 0
    hdr = {'H0': 67.0, 'BoxSize': 2000.0, 'ParticleMassHMsun': c12.MPART, 'VelZSpace_to_kms': 75.0}
    for c in cases['z']:
        z = c['z'] / 1000.0
        # the simulation side: one halo_info file under the reader-format redshift directory (what AbacusSummit ships)
        hi = os.path.join(root, 'sim', SIM, 'halos', c['rdir'], 'halo_info')
        os.makedirs(hi, exist_ok=True)
        if not os.path.exists(os.path.join(hi, 'halo_info_000.asdf')):
            asdf.AsdfFile({'header': hdr, 'data': {'x': np.zeros(1)}}).write_to(os.path.join(hi, 'halo_info_000.asdf'))
        flags = dict(LRG=True, ELG=bool(c['z'] % 2000 == 0), QSO=False)
        sub = os.path.join(root, 'subsample') + '/'
        rec, err = writer(root, z, c['lc'], flags, sub)
        nw += 1
        desc = f'z_mock={z} halo_lc={c["lc"]}'
        if c['type'] == 'illegal':
            if err is None or 'illegal redshift' not in err:
                problems.append(f'prepare_sim.main {desc}: the model expects "illegal redshift", got {err or "no error"}')
            wtype = 'illegal'
        elif err is not None or len(rec) != 1:
            problems.append(f'prepare_sim.main {desc}: {err or f"{len(rec)} slabs submitted, 1 expected"}')
            continue
        else:
            wtype = rec[0]['z_type']
            if wtype != c['type']:
                problems.append(f'prepare_sim.main {desc}: z_type {wtype}, the model says {c["type"]}')
            want_dir = sub + SIM + '/' + c['wdir']
            if rec[0]['savedir'] != want_dir:
                problems.append(f'prepare_sim.main {desc}: savedir {rec[0]["savedir"]}, the model says {want_dir}')
            if rec[0]['MT'] != (flags['ELG'] or flags['QSO']):
                problems.append(f'prepare_sim.main {desc}: MT={rec[0]["MT"]} for tracer flags {flags}')
        if c['lc']:
            continue                                            # the light-cone reader needs a light-cone catalogue: writer side only
        # reader: subsample files placed where the WRITER was told to write them
        if c['type'] != 'illegal':
            save = rec[0]['savedir']
            os.makedirs(save, exist_ok=True)
            tmp = os.path.join(chk.scratch, 'hodconfig_tmpl')
            c12.write_case(tmp, [[3, 10, 17]], rng, False)
            mt = '_MT' if rec[0]['MT'] else ''
            for kind in ('halos', 'particles'):
                shutil.copy(os.path.join(tmp, 'subsample', c12.SIM, 'z0.500', f'{kind}_xcom_0_seed600_abacushod_oldfenv_MT_new.h5'),
                            os.path.join(save, f'{kind}_xcom_0_seed600_abacushod_oldfenv{mt}_new.h5'))
        import hodcommon as hc
        sim_params = dict(sim_name=SIM, sim_dir=os.path.join(root, 'sim'), subsample_dir=sub, output_dir=os.path.join(root, 'out'), z_mock=z)
        HOD_params = dict(tracer_flags=flags, LRG_params=dict(hc.LRG), ELG_params=dict(hc.ELG), QSO_params=dict(hc.QSO), want_ranks=False, want_AB=False, want_shear=False, want_expvel=False, want_rsd=True)
        try:
            with warnings.catch_warnings():
                warnings.simplefilter('ignore')
                b = AbacusHOD(sim_params, HOD_params)
            rtype, rerr = b.z_type, None
        except Exception as e:  # noqa
            rtype, rerr = None, f'{type(e).__name__}: {e}'
        nr += 1
        if c['type'] == 'illegal':
            if rerr is None or 'illegal redshift' not in rerr:
                problems.append(f'AbacusHOD {desc}: the model expects "illegal redshift", got {rerr or rtype}')
        elif rerr is not None:
            problems.append(f'AbacusHOD {desc}: cannot stage the files written under {rec[0]["savedir"]}: {rerr[:160]}')
        elif rtype != wtype:
            problems.append(f'{desc}: prepare_sim.main classifies it {wtype}, AbacusHOD {rtype}')
        elif sorted(b.tracers) != sorted(t for t in flags if flags[t]):
            problems.append(f'AbacusHOD {desc}: tracers {sorted(b.tracers)} for flags {flags}')
    chk.part('hodconfig_M2', writer_runs=nw, reader_runs=nr)
    # observation: subsample_dir without its trailing slash (the writer concatenates strings)
    rec, err = writer(root, 0.5, False, dict(LRG=True, ELG=False, QSO=False), os.path.join(root, 'subsample'))
    if rec and rec[0]['savedir'] != os.path.join(root, 'subsample', SIM, 'z0.500'):
        obs.append(f'observation: with subsample_dir given without a trailing "/", prepare_sim.main writes to "{os.path.relpath(rec[0]["savedir"], root)}" while AbacusHOD reads "subsample/{SIM}/z0.500" (as the model states)')
    chk.add_cases(nw + nr, traces=nw + nr)
    chk.extended(NAME, not problems, '; '.join(list(dict.fromkeys(problems))[:4] + obs[:1]) or f'{nw} writer and {nr} reader configurations agree with the model')
