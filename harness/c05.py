"""C05 — halo statistics are unpacked into consistent physical units.

spec/HaloUnits.tla (layer D): the unit KIND of every halo column and the exact rational Value for stored samples,
BoxSize, VelZSpace_to_kms and convert_units; theorems: on/off loads differ by exactly the unit factor; the squares of
the three principal dispersions sum to sigmav3d^2 in the same (velocity) units; the kind table classifies every column once.
  M2  TLC emits the column -> kind table and Value for a grid of stored samples (raw floats n/64, int16 over its full
      range incl. -32768/32767, reference r100 / sigmav3d) x 4 (BoxSize, VelZSpace_to_kms) pairs with Box != Vel
  spec->code: synthetic catalogs carrying exactly those stored values are loaded with convert_units True/False x
      cleaned on/off (and a light-cone layout); every column is compared with Value (1e-6) and the cross-column
      identities are checked on the loaded numbers
"""
import json
import os
from fractions import Fraction

import numpy as np

import catcommon as cc
import synth_catalog as sc
from tlc import run_tlc, read_json

RD = 64
BOXVEL = [(1, 1), (2, 3), (5, 7), (7, 1100)]
RAWS = [-8, -1, 0, 3, 8]
I16 = [-32768, -32000, -1, 0, 1, 16000, 32000, 32767]
REFS = [0, 1, 5, 8]
PRINCIPAL = [(0, 0), (1, 2), (16000, 16000), (10000, 25000), (0, 32000), (12000, 20000), (3, 4), (20000, 24000)]


def run(chk):
    rng = np.random.default_rng(chk.seed)
    chk.cov['rule'] = ('rows = grid of stored samples (raw float n/64, int16 ratio over its full range, reference r100 / sigmav3d) carried by every column of a '
                       'synthetic catalog, for 4 (BoxSize, VelZSpace_to_kms) pairs x convert_units on/off x cleaned on/off (+ light-cone layout); '
                       'non-trivial = (column, row) with a non-zero stored value; distinct by (column, row, BoxSize, Vel, options)')
    chk.assumptions += ['transcription decisions of DESIGN.md §5 C05: sigman is a ratio to the unit box; cleaning-file and light-cone columns are stored in final units (Plain)',
                        'float32 columns: relative tolerance 2e-6 (absolute 1e-30); sigmavMid compared through its square and the sum-of-squares identity at 2e-5']
    cf = os.path.join(chk.scratch, 'cases.json')
    text = ("---- MODULE MC_HaloUnits ----\nEXTENDS HaloUnits\nVARIABLE v\nASSUME KindsDisjoint /\\ FactorTheorem /\\ PrincipalTheorem\nASSUME Emit(0)\n"
            "Init == v = 0\nNext == v' = v\n====\n")
    run_tlc(chk, 'MC_HaloUnits', module_text=text, cfg_text='INIT Init\nNEXT Next\n', env={'CASES_OUT': cf}, timeout=600)
    d = read_json(cf)
    kinds = {c: k for c, k in d['kinds']}
    val = {(v['kind'], v['box'], v['vel'], v['raw'], v['i16'], v['ref']): Fraction(v['val'][0], v['val'][1]) for v in d['values']}
    chk.cov['states'] += len(d['values'])
    chk.cov['transitions'] += len(d['values'])
    chk.part('M2', columns=len(kinds), value_samples=len(d['values']), theorems='KindsDisjoint, FactorTheorem, PrincipalTheorem hold')
    # ---- rows: sample tuples (raw, i16, ref) + principal pairs
    rows = [(r, i, rf) for r in RAWS for i in I16 for rf in REFS]
    rows = rows[:: 3] + [(3, 1, 5)]
    n = len(rows)
    nprin = len(PRINCIPAL)
    uids = list(range(n))
    from abacusnbody.data.compaso_halo_catalog import user_dt
    ncmp = nontriv = 0
    root = os.path.join(chk.scratch, 'cat')
    for pi, (box, vel) in enumerate(BOXVEL):
        base = sc.raw_halo_columns(uids)
        ov = {}
        # 64-bit ids as CompaSO writes them: far beyond 2**53, so a pass through floating point is visible
        ov['id'] = ((1 << 60) + 12345 + 3 * np.arange(len(uids), dtype=np.uint64)).astype(np.uint64)
        base['id'] = ov['id']
        raw = np.array([r[0] for r in rows], dtype=np.float64) / RD
        i16 = np.array([r[1] for r in rows], dtype=np.int16)
        ref = np.array([r[2] for r in rows], dtype=np.float64) / RD
        # the _L2com family gets a DIFFERENT reference (r100_L2com != r100_com, sigmav3d_L2com != sigmav3d_com)
        ref2i = [REFS[(REFS.index(r[2]) + 1) % len(REFS)] for r in rows]
        ref2 = np.array(ref2i, dtype=np.float64) / RD
        for col, kind in kinds.items():
            com = '_L2com' if col.endswith('_L2com') else ('_com' if col.endswith('_com') else '')
            stem = col[: len(col) - len(com)] if com else col
            if kind in ('Length', 'Velocity'):
                if stem in ('r100', 'sigmav3d'):
                    ov[col] = (ref2 if com == '_L2com' else ref).astype(np.float32)
                else:
                    shp = base[col].shape
                    ov[col] = (raw[:, None] * np.ones(shp[1:])[None] if len(shp) > 1 else raw).astype(np.float32)
            elif kind == 'RatioLen':
                rawname = col + '_i16'
                shp = base[rawname].shape
                ov[rawname] = (i16[:, None] * np.ones(shp[1:], dtype=np.int16)[None] if len(shp) > 1 else i16)
            elif kind == 'RatioVel':
                st = stem.replace('Maj', 'Max')
                ov[st + '_to_sigmav3d' + com + '_i16'] = i16
            elif kind == 'RatioBox':
                ov[col + '_i16'] = i16[:, None] * np.ones(3, dtype=np.int16)[None]
        # principal pairs occupy the first rows of Min/Max (so that sigmavMid is real there)
        for com in ('_com', '_L2com'):
            mn = ov['sigmavMin_to_sigmav3d' + com + '_i16'].copy()
            mx = ov['sigmavMax_to_sigmav3d' + com + '_i16'].copy()
            for j in range(n):
                a, b = PRINCIPAL[j % nprin]
                mn[j], mx[j] = a, b
            ov['sigmavMin_to_sigmav3d' + com + '_i16'], ov['sigmavMax_to_sigmav3d' + com + '_i16'] = mn, mx
        cat = [[dict(nA=0, gA=0, mA=0, hA=0, nB=0, gB=0, mB=0, hB=0, away=False) for _ in range(n)]]
        # header values are whatever the file's author wrote: integers for alternate pairs (an integer BoxSize must not drag the int16 columns into integer arithmetic)
        as_hdr = (lambda v: int(v) if (pi % 2 and float(v).is_integer()) else float(v))
        hdr = sc.header(BoxSize=as_hdr(box), VelZSpace_to_kms=as_hdr(vel))
        zd = sc.write_catalog(root, cat, hdr=hdr, halo_overrides={0: ov})
        loads = {}
        for convert in (True, False):
            for cleaned in (True, False):
                try:
                    loads[(convert, cleaned)] = cc.load(zd, cleaned=cleaned, convert_units=convert, fields='all')
                except Exception as e:  # noqa
                    chk.violation(f'load-raises-{type(e).__name__}', f'Box={box} Vel={vel} convert_units={convert} cleaned={cleaned} fields=all: {type(e).__name__}: {e}', dict(box=box, vel=vel))
        # the same columns requested explicitly, in reversed and in shuffled order (loaders must not depend on what was loaded before them)
        allcols = sorted(kinds)
        for oname, order in (('reversed', allcols[::-1]), ('shuffled', list(rng.permutation(allcols))), ('refs-last', [c for c in allcols if not c.startswith(('r100', 'sigmav3d_'))] + [c for c in allcols if c.startswith(('r100', 'sigmav3d_'))])):
            try:
                loads[(True, False, oname)] = cc.load(zd, cleaned=False, convert_units=True, fields=[str(c) for c in order])
            except Exception as e:  # noqa
                chk.violation(f'load-raises-{type(e).__name__}-{oname}', f'Box={box} Vel={vel} explicit field list ({oname} order): {type(e).__name__}: {e}', dict(box=box, vel=vel))
        # derived columns requested alone or with only some of their inputs (their un-requested inputs become temporary columns), and small random subsets
        subsets = [(True, False, ['sigmavMid_com']), (False, True, ['sigmavMid_L2com', 'N']), (True, True, ['sigmavMid_com', 'sigmavMin_com']), (False, False, ['sigmavMaj_L2com', 'sigmavMid_L2com']),
                   (True, bool(pi % 2), [str(c) for c in rng.choice(allcols, 3, replace=False)]), (bool(pi % 2), True, [str(c) for c in rng.choice(allcols, 2, replace=False)])]
        for si, (cv, cl, flds) in enumerate(subsets):
            try:
                loads[(cv, cl, f'subset{si}')] = cc.load(zd, cleaned=cl, convert_units=cv, fields=flds)
            except Exception as e:  # noqa
                chk.violation(f'load-raises-{type(e).__name__}-subset', f'Box={box} Vel={vel} convert_units={cv} cleaned={cl} fields={flds}: {type(e).__name__}: {e}', dict(box=box, vel=vel))
        for key3, cobj in loads.items():
            convert, cleaned = key3[0], key3[1]
            b, v = (box, vel) if convert else (1, 1)
            H = cobj.halos
            partial = len(key3) == 3 and str(key3[2]).startswith('subset')          # a load of a few columns only
            for col, kind in kinds.items():
                if col not in H.colnames:
                    if not (cleaned and col == 'N') and not partial:
                        chk.violation(f'missing-column-{col}', f'fields=all did not load {col}', dict(col=col))
                    continue
                got = np.asarray(H[col]).astype(np.float64)
                com = '_L2com' if col.endswith('_L2com') else ('_com' if col.endswith('_com') else '')
                if kind == 'Plain':
                    continue                                    # compared across the on/off loads below
                if kind == 'MidDisp':
                    mn = ov['sigmavMin_to_sigmav3d' + com + '_i16'].astype(np.int64)
                    mx = ov['sigmavMax_to_sigmav3d' + com + '_i16'].astype(np.int64)
                    s = np.array([(ref2i[j] if com == '_L2com' else rows[j][2]) for j in range(n)], dtype=np.int64)
                    want2 = np.array([float(Fraction(int(s[j]) ** 2 * (32000 ** 2 - int(mn[j]) ** 2 - int(mx[j]) ** 2) * v * v, (32000 * RD) ** 2)) for j in range(n)])
                    bad = ~np.isclose(got ** 2, want2, rtol=2e-5, atol=1e-12 * v * v)
                    ncmp += n
                else:
                    want = np.empty(n)
                    for j, (r, i, rf) in enumerate(rows):
                        if com == '_L2com':
                            rf = ref2i[j]
                        ii = i
                        if kind == 'RatioVel':
                            st = col[: len(col) - len(com)].replace('Maj', 'Max')
                            ii = int(ov[st + '_to_sigmav3d' + com + '_i16'][j])
                        rr = rf if col[: len(col) - len(com)] in ('r100', 'sigmav3d') else r
                        want[j] = float(val[(kind, b, v, rr, ii, rf)])
                    w = want.reshape((n,) + (1,) * (got.ndim - 1))
                    bad = ~np.isclose(got, w, rtol=2e-6, atol=1e-30)
                    ncmp += n
                    nontriv += int(np.count_nonzero(want))
                if bad.any():
                    j = int(np.argwhere(bad.reshape(n, -1).any(axis=1))[0][0])
                    wj = (want2[j] ** 0.5 if kind == 'MidDisp' else want[j])
                    chk.violation(f'units-{kind}-{col[: len(col) - len(com)] if com else col}-{"on" if convert else "off"}',
                                  f'{col} (kind {kind}) BoxSize={box} VelZSpace_to_kms={vel} convert_units={convert} cleaned={cleaned}: loaded {np.asarray(H[col])[j].tolist()!r}, '
                                  f'expected {wj!r} for stored sample (raw={rows[j][0]}/64, i16 row, ref={rows[j][2]}/64)', dict(col=col, box=box, vel=vel, convert=convert, row=j))
            # identity: Min^2 + Mid^2 + Maj^2 = sigmav3d^2 in the same units
            for com in ('_com', '_L2com'):
                if not all(('sigmav' + w_ + com) in H.colnames for w_ in ('Min', 'Mid', 'Maj')) or ('sigmav3d' + com) not in H.colnames:
                    continue
                lhs = sum(np.asarray(H['sigmav' + w + com]).astype(np.float64) ** 2 for w in ('Min', 'Mid', 'Maj'))
                rhs = np.asarray(H['sigmav3d' + com]).astype(np.float64) ** 2
                okm = np.isfinite(lhs)
                ncmp += n
                if not np.allclose(lhs[okm], rhs[okm], rtol=5e-5, atol=1e-12):
                    j = int(np.argwhere(~np.isclose(lhs, rhs, rtol=5e-5, atol=1e-12) & okm)[0][0])
                    chk.violation(f'principal-sum-{"on" if convert else "off"}', f'BoxSize={box} Vel={vel} convert_units={convert}: sigmavMin^2+Mid^2+Maj^2 = {lhs[j]!r} but sigmav3d{com}^2 = {rhs[j]!r}', dict(box=box, vel=vel, convert=convert, row=j))
        # on/off: Plain columns identical; cleaning columns identical
        for cleaned in (True, False):
            if (True, cleaned) in loads and (False, cleaned) in loads:
                A, B = loads[(True, cleaned)].halos, loads[(False, cleaned)].halos
                plain = [c for c, k in kinds.items() if k == 'Plain'] + (list(d['clean_plain']) if cleaned else [])
                for col in plain:
                    if col in A.colnames and col in B.colnames:
                        ncmp += n
                        if not np.array_equal(np.asarray(A[col]), np.asarray(B[col]), equal_nan=True):
                            chk.violation(f'plain-changed-{col}', f'{col} differs between convert_units on and off (BoxSize={box}, Vel={vel})', dict(col=col, box=box, vel=vel))
                # stored values of plain columns come back unchanged
                for col in ('id', 'L2_N', 'SO_central_density'):
                    if col in A.colnames and not np.array_equal(np.asarray(A[col]), base[col]):
                        chk.violation(f'plain-value-{col}', f'{col} differs from its stored value', dict(col=col))
        if box == 7:
            chk.sample(dict(box=box, vel=vel, row=rows[5], note='every column of the synthetic catalog carries this stored sample'))
    # ---- thorough: random stored values and non-integer (BoxSize, VelZSpace_to_kms), judged by the twin of Value (validated above on the TLC grid)
    if not chk.quick:
        for rep in range(6):
            box, vel = float(rng.choice([500.0, 2000.0, 7.25, 1.0])), float(rng.choice([1100.5, 1.0, 37.125, 3000.0]))
            nr = 40
            ov = {}
            raws = {}
            base = sc.raw_halo_columns(list(range(nr)))
            for col, kind in kinds.items():
                com = '_L2com' if col.endswith('_L2com') else ('_com' if col.endswith('_com') else '')
                stem = col[: len(col) - len(com)] if com else col
                if kind in ('Length', 'Velocity'):
                    shp = base[col].shape
                    ov[col] = rng.uniform(-0.5, 0.5, shp).astype(np.float32)
                    if stem in ('r100', 'sigmav3d'):
                        ov[col] = np.abs(ov[col])
                elif kind in ('RatioLen', 'RatioBox'):
                    ov[col + '_i16'] = rng.integers(-32768, 32768, base[col + '_i16'].shape).astype(np.int16)
                elif kind == 'RatioVel':
                    ov[stem.replace('Maj', 'Max') + '_to_sigmav3d' + com + '_i16'] = rng.integers(-22000, 22000, nr).astype(np.int16)
            zd = sc.write_catalog(root, [[dict(nA=0, gA=0, mA=0, hA=0, nB=0, gB=0, mB=0, hB=0, away=False) for _ in range(nr)]], hdr=sc.header(BoxSize=box, VelZSpace_to_kms=vel), halo_overrides={0: ov})
            for convert in (True, False):
                H = cc.load(zd, cleaned=bool(rep % 2), convert_units=convert, fields='all').halos
                b, v = (box, vel) if convert else (1.0, 1.0)
                for col, kind in kinds.items():
                    com = '_L2com' if col.endswith('_L2com') else ('_com' if col.endswith('_com') else '')
                    stem = col[: len(col) - len(com)] if com else col
                    if kind == 'Length':
                        want = ov[col].astype(np.float64) * b
                    elif kind == 'Velocity':
                        want = ov[col].astype(np.float64) * v
                    elif kind == 'RatioLen':
                        r = ov['r100' + com].astype(np.float64)
                        i16 = ov[col + '_i16'].astype(np.float64)
                        want = i16 * (r[:, None] if i16.ndim > 1 else r) / 32000.0 * b
                    elif kind == 'RatioBox':
                        want = ov[col + '_i16'].astype(np.float64) / 32000.0 * b
                    elif kind == 'RatioVel':
                        want = ov[stem.replace('Maj', 'Max') + '_to_sigmav3d' + com + '_i16'].astype(np.float64) * ov['sigmav3d' + com].astype(np.float64) / 32000.0 * v
                    else:
                        continue
                    got = np.asarray(H[col]).astype(np.float64)
                    ncmp += nr
                    if not np.allclose(got, want, rtol=3e-6, atol=1e-30):
                        j = int(np.argwhere(~np.isclose(got, want, rtol=3e-6, atol=1e-30).reshape(nr, -1).all(axis=1))[0][0])
                        chk.violation(f'units-{kind}-{stem}-{"on" if convert else "off"}-random', f'{col} (kind {kind}) BoxSize={box} VelZSpace_to_kms={vel} convert_units={convert}: loaded {got[j]!r}, expected {want[j]!r} (random stored values)',
                                      dict(col=col, box=box, vel=vel, convert=convert))
        chk.part('random_catalogs', comparisons=ncmp)
    # light-cone layout: unit kinds of the L2com columns + Plain light-cone columns
    halos = [dict(nA=1, gA=0) for _ in range(6)]
    dlc = sc.write_lightcone(root, halos, hdr=sc.header(BoxSize=7.0, VelZSpace_to_kms=1100.0, OutputType='LightCone'))
    try:
        on = cc.load(dlc, convert_units=True)
        off = cc.load(dlc, convert_units=False)
        raws = sc.raw_halo_columns([sc.uid(0, k) for k in range(6)])
        for col in on.halos.colnames:
            k = kinds.get(col)
            a, b2 = np.asarray(on.halos[col]).astype(np.float64), np.asarray(off.halos[col]).astype(np.float64)
            ncmp += 6
            if k in ('Length', 'RatioLen', 'RatioBox'):
                okc = np.allclose(a, b2 * 7.0, rtol=2e-6)
            elif k in ('Velocity', 'RatioVel', 'MidDisp'):
                okc = np.allclose(a, b2 * 1100.0, rtol=2e-5, equal_nan=True)
            else:
                okc = np.array_equal(a, b2, equal_nan=True)
            if not okc:
                chk.violation(f'lightcone-units-{k}-{col}', f'light-cone catalog: {col} (kind {k}) on/off loads do not differ by its unit factor (Box=7, Vel=1100)', dict(col=col))
        if 'origin' in on.halos.colnames and np.any(np.asarray(on.halos['origin']) >= 3):
            chk.violation('lightcone-origin', 'light-cone origin is not reduced modulo 3', {})
    except Exception as e:  # noqa
        chk.violation(f'lightcone-load-{type(e).__name__}', f'light-cone load: {type(e).__name__}: {e}', {})
    chk.part('loads', comparisons=ncmp)
    chk.add_cases(ncmp, nontrivial=nontriv, traces=ncmp)


def replay(chk, path):
    d = json.load(open(path))
    print(d['what'])
    run(chk)
