"""C19 — util.cumsum writes exactly the selected partial sums for every length.

spec/Cumsum.tla: layer D (Selected/Total/Accepts), layer A (the loop, InBounds, RefinesD).
  M1  TLC exhaustive: A refines D and stays in bounds for all N<=MaxN x flags x offsets x output lengths
  M1' positive control: the pinned (pre-fix) variant of A must violate InBounds (non-vacuity)
  M2  TLC writes every case with D's expected result -> cases.json
  spec->code: every case is executed on the real compiled cumsum inside sentinel arenas (two poison
      values), on py_func (numpy bounds checks) and, in a subprocess, with NUMBA_BOUNDSCHECK=1
  code->spec (M3): access logs of the real source (py_func on recording proxies) are validated by TLC
      against layer A (CumsumTrace.tla); a mismatch with correct observables is model drift (NOTE).
"""
import json
import os
import subprocess
import sys

import numpy as np

from tlc import run_tlc, read_json

G = 4  # guard cells on each side

# dtype pairings: (name, arr dtype or 'list', out dtype, U)
PAIRS = [
    ('i8->i8', np.int64, np.int64, 2**40),
    ('u4->u8', np.uint32, np.uint64, 2**32 - 1),
    ('i4->i8', np.int32, np.int64, 2**31 - 1),
    ('f8->f8', np.float64, np.float64, 2.0**40),
    ('f4->f8', np.float32, np.float64, 2.0**20),
    ('list->i8', 'list', np.int64, 2**40),
    ('u8->u8', np.uint64, np.uint64, 2**40),
]


def conc(v, U):
    return v[0] * U + v[1]


def mk_arena(n, dtype, poison, stride=1):
    """an array of n elements inside poisoned guard cells; stride 2 = a non-contiguous view whose in-between cells are guards too"""
    a = np.full(stride * (n + 2 * G), poison, dtype=dtype)
    return a, a[stride * G:stride * (G + n):stride]


def guards_intact(arena, n, poison, stride=1):
    m = np.ones(len(arena), bool)
    m[stride * G:stride * (G + n):stride] = False
    return bool(np.all(arena[m] == poison))


def run_case(cumsum, case, exp, pair, poison_idx, compiled=True):
    """Returns None if the real code agrees with D, else a description."""
    name, adt, odt, U = pair
    c = case
    vals = [conc(v, U) for v in c['arr']]
    off = conc(c['off'], U)
    ap = [91, 57][poison_idx]
    op = [77, 33][poison_idx]
    if adt == 'list':
        if not vals:
            return None  # numba cannot type an empty reflected list (not a cumsum concern)
        arr_arena, arr = None, [int(v) for v in vals]
    else:
        arr_arena, arr = mk_arena(len(vals), adt, ap, 1 + poison_idx)
        arr[:] = vals
    out_arena, out = mk_arena(c['outlen'], odt, op, 2 - poison_idx)
    if np.issubdtype(odt, np.integer):
        off = int(off)
    try:
        ret = cumsum(arr, out, initial=c['init'], final=c['fin'], offset=off)
        raised = None
    except ValueError as e:
        raised = 'ValueError'
    except IndexError as e:
        return f'out-of-bounds access ({type(e).__name__}: {e})'
    # guards
    if arr_arena is not None:
        if not guards_intact(arr_arena, len(vals), ap, 1 + poison_idx):
            return 'input guard cells modified (write outside the input array)'
        if not np.array_equal(arr, np.array(vals, dtype=adt)):
            return 'input array modified'
    if not guards_intact(out_arena, c['outlen'], op, 2 - poison_idx):
        return 'output guard cells modified (write outside the output array)'
    if exp['raises']:
        if raised is None:
            return f'wrong output length {c["outlen"]} accepted'
        if not np.all(out == op):
            return 'output written although the call was rejected'
        return None
    if raised is not None:
        return f'valid call rejected with {raised}'
    want = np.array([conc(v, U) for v in exp['out']], dtype=odt)
    if not np.array_equal(out, want):
        return f'output {out.tolist()} != expected {want.tolist()}'
    wt = conc(exp['total'], U)
    if ret != odt(wt):
        return f'returned total {ret} != expected {wt}'
    return None


class Rec:
    """ndarray stand-in recording every element access of cumsum.py_func."""
    def __init__(self, name, a, log):
        self.name, self.a, self.log = name, a, log
        self.dtype = a.dtype

    def __len__(self):
        return len(self.a)

    def __getitem__(self, i):
        self.log.append(['R', self.name, int(i)])
        return self.a[i]

    def __setitem__(self, i, v):
        self.log.append(['W', self.name, int(i)])
        self.a[i] = v


def boundscheck_child(cases_file):
    """Runs in a subprocess with NUMBA_BOUNDSCHECK=1: prints one json line per faulting case."""
    from abacusnbody.util import cumsum
    cases = read_json(cases_file)
    bad = []
    n = 0
    for e in cases:
        if e['raises']:
            continue
        for pair in (PAIRS[0], PAIRS[1], PAIRS[3]):
            n += 1
            r = run_case(cumsum, e['case'], e, pair, 0)
            if r:
                bad.append(dict(case=e['case'], pair=pair[0], what=r))
    print('BCRESULT ' + json.dumps(dict(n=n, bad=bad[:50], nbad=len(bad))))


def key_of(c, what):
    n = len(c['arr'])
    cls = 'N0' if n == 0 else ('N1' if n == 1 else 'Nge2')
    kind = 'oob' if ('guard' in what or 'out-of-bounds' in what) else ('accept' if 'accepted' in what or 'rejected' in what else 'value')
    return f'cumsum-{cls}-init{int(c["init"])}-fin{int(c["fin"])}-{kind}'


def run(chk):
    from abacusnbody.util import cumsum
    chk.cov['rule'] = ('cases = all (arr in Vals^<=MaxN, initial, final, offset, output length 0..N+2) enumerated by TLC '
                       'from Cumsum.tla; each executed on the real cumsum for every dtype pairing; '
                       'non-trivial = accepted call or wrong-length call, distinct by (arr, flags, offset, outlen, dtype pairing)')
    chk.assumptions += ['TLC 1.8 and the TLA+ transcription of numpy.cumsum semantics in Cumsum.tla (layer D)',
                        'values k*U+s concretised with U per dtype pairing (2^32-1 for uint32->uint64)',
                        'guard cells + two poison values expose out-of-range writes and result-affecting reads of compiled code',
                        'empty Python-list input is outside numba\'s typing (not reachable from concat_to_arr: batches are non-empty)']
    maxn = 4 if chk.quick else 5
    cfg = open(os.path.join(os.path.dirname(__file__), '..', 'spec', 'MC_Cumsum.cfg')).read().replace('MaxN = 4', f'MaxN = {maxn}')
    cases_file = os.path.join(chk.scratch, 'cases.json')
    # M1 + M2
    res = run_tlc(chk, 'MC_Cumsum', cfg_text=cfg, env={'CASES_OUT': cases_file}, timeout=3000)
    chk.part('M1', generated=res['generated'], distinct=res['distinct'], maxN=maxn)
    # positive control (non-vacuity of InBounds): pinned variant must fail
    ctl = run_tlc(chk, 'MC_Cumsum', cfg_text=cfg.replace('GuardEmpty = TRUE', 'GuardEmpty = FALSE').replace('MaxN = %d' % maxn, 'MaxN = 2'),
                  expect_violation=True, record=False, timeout=600)
    if ctl['outcome'] != 'invariant' or 'InBounds' not in ctl.get('violated', []):
        raise RuntimeError('positive control failed: pinned cumsum model did not violate InBounds')
    chk.part('positive_control', outcome='InBounds violated on pinned variant (expected)')
    cases = read_json(cases_file)
    # spec -> code
    nrun = 0
    for e in cases:
        c = e['case']
        for pair in PAIRS:
            for mode, fn in (('compiled', cumsum), ('py_func', cumsum.py_func)):
                if mode == 'py_func' and (pair[0] not in ('i8->i8', 'u4->u8') or len(c['arr']) > 3):
                    continue
                if mode == 'py_func' and pair[1] == 'list':
                    continue
                for pi in (0, 1):
                    r = run_case(fn, c, e, pair, pi)
                    nrun += 1
                    if r:
                        chk.violation(key_of(c, r), f'{mode} {pair[0]}: {r}', dict(case=c, expected=e, pair=pair[0], mode=mode))
    chk.add_cases(nrun, nontrivial=len(cases) * len(PAIRS), traces=len(cases) * len(PAIRS))
    chk.sample(dict(case=cases[len(cases) // 2]['case'], expected=cases[len(cases) // 2]))
    chk.sample(dict(case=cases[3]['case'], expected=cases[3]))
    # NUMBA_BOUNDSCHECK=1 subprocess on accepted cases
    env = dict(os.environ, NUMBA_BOUNDSCHECK='1')
    p = subprocess.run([sys.executable, '-c', f'import c19; c19.boundscheck_child({cases_file!r})'], env=env, capture_output=True, text=True, timeout=3000)
    m = [l for l in p.stdout.splitlines() if l.startswith('BCRESULT ')]
    if not m:
        raise RuntimeError('boundscheck child failed:\n' + p.stdout[-2000:] + p.stderr[-3000:])
    bc = json.loads(m[0][9:])
    # ---- fractional floating-point data (dyadic, so every partial sum is exact): float -> int / float32 / float64 outputs and int data with a float offset;
    #      the output holds the selected partial sums (truncated on an integer output, as numpy would store them) and the RETURNED total is the untruncated sum
    nfrac = 0
    frng = np.random.default_rng(chk.seed + 13)
    for Nf in range(0, 7):
        for ini in (False, True):
            for fin in (False, True):
                Lf = Nf - 1 + ini + fin
                if Lf < 0:
                    continue
                for adt, odt, offf in ((np.float64, np.int64, 3), (np.float64, np.float32, 0.5), (np.float32, np.float64, 0.0), (np.int64, np.float64, 0.25), (np.float64, np.int32, 0)):
                    af = (frng.integers(1, 40, Nf) * 0.125).astype(adt) if adt != np.int64 else frng.integers(1, 9, Nf).astype(adt)
                    outf = np.full(Lf, 77, dtype=odt)
                    try:
                        rf = cumsum(af, outf, initial=ini, final=fin, offset=offf)
                    except Exception as e:  # noqa
                        chk.violation('frac-raises', f'cumsum({np.dtype(adt).name} -> {np.dtype(odt).name}, N={Nf}, initial={ini}, final={fin}): {type(e).__name__}: {e}', dict(N=Nf))
                        continue
                    nfrac += 1
                    full = float(offf) + np.concatenate([[0.0], np.cumsum(af.astype(np.float64))])          # prefix sums incl. the leading offset and the total
                    sel = full[(0 if ini else 1):(len(full) if fin else len(full) - 1)] if Nf else (full[:1] if (ini and fin) else full[:0])
                    want = np.trunc(sel).astype(odt) if np.issubdtype(odt, np.integer) else sel.astype(odt)
                    if not np.array_equal(outf, want):
                        chk.violation(f'frac-output-{np.dtype(adt).name}-{np.dtype(odt).name}', f'cumsum({af.tolist()} {np.dtype(adt).name} -> {np.dtype(odt).name}, initial={ini}, final={fin}, offset={offf}): output {outf.tolist()} != {want.tolist()}', dict(N=Nf))
                    if float(rf) != float(full[-1]):
                        chk.violation(f'frac-total-{np.dtype(adt).name}-{np.dtype(odt).name}', f'cumsum({af.tolist()} {np.dtype(adt).name} -> {np.dtype(odt).name}, initial={ini}, final={fin}, offset={offf}): returned total {rf!r} != offset + sum = {float(full[-1])!r}', dict(N=Nf))
    chk.part('fractional_floats', runs=nfrac)
    chk.part('boundscheck', runs=bc['n'], faults=bc['nbad'])
    for b in bc['bad']:
        chk.violation(key_of(b['case'], b['what']), f'NUMBA_BOUNDSCHECK=1 {b["pair"]}: {b["what"]}', b)
    chk.add_cases(bc['n'], nontrivial=0, traces=0)
    # code -> spec: access logs of the real source validated against layer A by TLC
    traces = []
    for e in cases:
        c = e['case']
        if len(c['arr']) > 3:
            continue
        log = []
        U = 2**40
        arr = Rec('arr', np.array([conc(v, U) for v in c['arr']], dtype=np.int64), log)
        out = Rec('out', np.zeros(c['outlen'], dtype=np.int64), log)
        try:
            cumsum.py_func(arr, out, initial=c['init'], final=c['fin'], offset=conc(c['off'], U))
            outcome = 'done'
        except ValueError:
            outcome = 'raised'
        except IndexError:
            outcome = 'oob'
        traces.append(dict(case=c, log=log, outcome=outcome))
    tf = os.path.join(chk.scratch, 'traces.json')
    with open(tf, 'w') as f:
        json.dump(traces, f)
    tcfg = cfg.replace('SPECIFICATION Spec', 'SPECIFICATION TraceSpec').split('INVARIANT')[0] + 'INVARIANT TraceMatches\nINVARIANT InBounds\n'
    tr = run_tlc(chk, 'CumsumTrace', cfg_text=tcfg, env={'TRACE_FILE': tf}, expect_violation=True, timeout=1200)
    chk.part('M3_access_logs', traces=len(traces), outcome=tr['outcome'])
    if tr['outcome'] != 'ok':
        bad_oob = [t for t in traces if t['outcome'] == 'oob']
        if bad_oob:
            pass  # already reported through the observable comparison above
        chk.note('model-drift C19: access log of cumsum.py_func is not a behaviour of layer A (observables are judged separately)')
    chk.cov['traces_validated_against_impl'] += len(traces)
    # ---- extended coverage (specification growth, spec/Menv.tla): the cumsum call site in hod/menv.py — batched neighbour sums
    try:
        mt = ("---- MODULE MC_Menv ----\nEXTENDS Menv\nVARIABLE v\nASSUME AllOK(%d, 3)\nInit == v = 0\nNext == v' = v\n====\n" % (4 if chk.quick else 5))
        run_tlc(chk, 'MC_Menv', module_text=mt, cfg_text='INIT Init\nNEXT Next\n', timeout=900)
        from abacusnbody.hod import menv
        from scipy.spatial import KDTree
        rng = np.random.default_rng(chk.seed)
        bad = []
        # concat_to_arr: starts / flat indices
        for lists in ([[1, 2], [], [3]], [[0]], [[], []], [[5, 4, 3, 2, 1]]):
            res, starts = menv.concat_to_arr(lists)
            flat = [x for l in lists for x in l]
            st = [0] + list(np.cumsum([len(l) for l in lists]))
            if res.tolist() != flat or starts.tolist() != st:
                bad.append(f'concat_to_arr({lists}) -> {res.tolist()}, {starts.tolist()}')
        # do_Menv_from_tree: independent of batch size and thread count, equal to the brute-force difference of aperture sums
        Lbox = 16.0
        for n in (1, 5, 23):
            pos = rng.integers(0, 32, (n, 3)) * 0.5 - Lbox / 2
            mass = rng.choice([1e10, 5e11, 2e12], n)
            ref = None
            for bs in (1, 2, 7, 100000):
                for nt in (1, 3):
                    import contextlib, io
                    with contextlib.redirect_stdout(io.StringIO()):
                        out = menv.do_Menv_from_tree(pos, mass, 1.0, 3.0, False, Lbox, nt, mcut=1e11, batch_size=bs)
                    if ref is None:
                        ref = out
                        # brute force with periodic minimum image
                        d = pos[:, None, :] - pos[None, :, :]
                        d = (d + Lbox / 2) % Lbox - Lbox / 2
                        r = np.sqrt((d ** 2).sum(axis=2))
                        bf = np.where(mass > 1e11, ((r <= 3.0) * mass[None, :]).sum(axis=1) - ((r <= 1.0) * mass[None, :]).sum(axis=1), 0.0)
                        if not np.allclose(out, bf, rtol=1e-12):
                            bad.append(f'do_Menv_from_tree N={n}: differs from brute force')
                    elif not np.array_equal(out, ref):
                        bad.append(f'do_Menv_from_tree N={n}: batch_size={bs} nthread={nt} differs from batch_size=1')
        chk.extended('Menv (batched neighbour sums, concat_to_arr, msum_core)', not bad, '; '.join(bad[:3]))
    except Exception as e:  # noqa
        chk.extended('Menv (batched neighbour sums, concat_to_arr, msum_core)', False, f'{type(e).__name__}: {e}')


def replay(chk, path):
    from abacusnbody.util import cumsum
    d = json.load(open(path))
    p = d['payload']
    pair = [q for q in PAIRS if q[0] == p['pair']][0]
    for fn in (cumsum, cumsum.py_func):
        r = run_case(fn, p['case'], p['expected'], pair, 0)
        print('replay:', r)
        if r:
            chk.violation(d['key'], r, p)
