"""Controlled-schedule replay of numba `prange` kernels on their real Python source.

The kernel's py_func source is AST-rewritten so that every `for x in numba.prange(n): body`
becomes `__par(body_fn, n)`: each iteration runs as its own thread of control, all iterations
of one prange finish before the next statement (the barrier numba provides).  Shared arrays are
wrapped in `Shared` proxies whose element reads/writes are yield points; a scheduler decides,
one event at a time, which thread proceeds.  This executes on the real source exactly the
interleavings that the TLA+ layer-A models (ReadCell / WriteCell steps) explore.
"""
import ast
import inspect
import textwrap
import threading

import numpy as np


class Scheduler:
    """Runs thread bodies; `policy(sched)` returns the id of the thread to advance next."""

    def __init__(self, policy=None):
        self.policy = policy
        self.cv = threading.Condition()
        self.turn = None
        self.pending = {}      # tid -> (kind, name, idx) the op the thread is about to perform
        self.done = set()
        self.nops = {}         # tid -> number of shared ops performed
        self.log = []
        self.errors = []
        self.active = False
        self.tls = threading.local()

    # called from proxies
    def yield_point(self, kind, name, idx):
        tid = getattr(self.tls, 'tid', None)
        if tid is None or not self.active:
            return
        with self.cv:
            self.pending[tid] = (kind, name, idx)
            self.turn = None
            self.cv.notify_all()
            while self.turn != tid:
                self.cv.wait()
            self.log.append((tid, kind, name, idx))
            self.nops[tid] = self.nops.get(tid, 0) + 1
            del self.pending[tid]

    def thread_id(self):
        """numba.get_thread_id() of the calling worker"""
        return getattr(self.tls, 'tid', 0) or 0

    def par(self, body, n):
        n = int(n)
        if n <= 0:
            return
        if getattr(self, 'nthreads', None):
            # numba distributes the iterations of a prange over the worker threads in contiguous chunks; iterations of one
            # worker run sequentially (they may share per-thread state indexed by get_thread_id())
            T = min(int(self.nthreads), n)
            bounds = [(n * t) // T for t in range(T + 1)]
            inner = body

            def chunk_body(t, inner=inner, bounds=bounds):
                for i in range(bounds[t], bounds[t + 1]):
                    inner(i)
            body, n = chunk_body, T
        tids = list(range(n))
        self.pending, self.done, self.nops = {}, set(), {}
        self.active = True

        def runner(tid):
            self.tls.tid = tid
            with self.cv:
                self.pending[tid] = ('start', None, None)
                self.cv.notify_all()
                while self.turn != tid:
                    self.cv.wait()
                del self.pending[tid]
            try:
                body(tid)
            except BaseException as e:  # noqa
                self.errors.append((tid, e))
            with self.cv:
                self.done.add(tid)
                self.turn = None
                self.cv.notify_all()

        threads = [threading.Thread(target=runner, args=(t,), daemon=True) for t in tids]
        for t in threads:
            t.start()
        with self.cv:
            while True:
                # wait until every live thread is parked
                while self.turn is not None or len(self.pending) + len(self.done) < n:
                    self.cv.wait()
                if len(self.done) == n:
                    break
                live = sorted(self.pending)
                choice = self.policy(self, live) if self.policy else live[0]
                if choice not in self.pending:
                    choice = live[0]
                self.turn = choice
                self.cv.notify_all()
        for t in threads:
            t.join()
        self.active = False
        if self.errors:
            raise self.errors[0][1]


class Shared:
    """ndarray proxy: scalar element reads/writes are yield points of the scheduler."""

    def __init__(self, arr, name, sched):
        self.a, self.name, self.s = arr, name, sched
        self.shape, self.ndim, self.dtype = arr.shape, arr.ndim, arr.dtype

    def __len__(self):
        return len(self.a)

    def __getattr__(self, n):          # .T, .reshape, .astype ... operate on the underlying array (no yield point)
        return getattr(self.__dict__['a'], n)

    def __array__(self, dtype=None, copy=None):
        return self.a if dtype is None else self.a.astype(dtype)

    def _norm(self, idx):
        if not isinstance(idx, tuple):
            idx = (idx,)
        return tuple((int(i) % self.shape[k]) if self.shape[k] else int(i) for k, i in enumerate(idx))

    def __getitem__(self, idx):
        if isinstance(idx, tuple) and len(idx) == self.ndim and all(np.ndim(i) == 0 and not isinstance(i, slice) for i in idx) \
                or (self.ndim == 1 and np.ndim(idx) == 0 and not isinstance(idx, slice)):
            self.s.yield_point('R', self.name, self._norm(idx))
            return self.a[idx]
        return self.a[idx]          # slices / views: not a synchronisation point

    def __setitem__(self, idx, v):
        if isinstance(idx, tuple) and len(idx) == self.ndim and all(np.ndim(i) == 0 and not isinstance(i, slice) for i in idx) \
                or (self.ndim == 1 and np.ndim(idx) == 0 and not isinstance(idx, slice)):
            self.s.yield_point('W', self.name, self._norm(idx))
        self.a[idx] = v


def _delegate(op):
    def f(self, *others):
        return getattr(self.a, op)(*[o.a if isinstance(o, Shared) else o for o in others])
    return f


for _op in ('add', 'sub', 'mul', 'truediv', 'floordiv', 'mod', 'pow', 'radd', 'rsub', 'rmul', 'rtruediv', 'rfloordiv', 'rmod', 'rpow',
            'neg', 'pos', 'abs', 'lt', 'le', 'gt', 'ge', 'and', 'or', 'invert'):
    setattr(Shared, f'__{_op}__', _delegate(f'__{_op}__'))          # whole-array arithmetic: plain arrays, no yield point


class _Rewrite(ast.NodeTransformer):
    def __init__(self, share=()):
        self.n = 0
        # share='*': every array bound to a local name OUTSIDE the parallel loops is visible to all threads (scratch buffers included);
        # names bound inside a prange body are thread-private
        self.share_all = (share == '*')
        self.share = set() if self.share_all else set(share)
        self.in_par = 0

    def visit_Assign(self, node):
        self.generic_visit(node)
        if self.in_par == 0 and len(node.targets) == 1 and isinstance(node.targets[0], ast.Name) and (self.share_all or node.targets[0].id in self.share):
            nm = node.targets[0].id
            wrap = ast.Assign(targets=[ast.Name(id=nm, ctx=ast.Store())],
                              value=ast.Call(func=ast.Name(id='__share', ctx=ast.Load()),
                                             args=[ast.Name(id=nm, ctx=ast.Load()), ast.Constant(value=nm)], keywords=[]))
            return [node, wrap]
        return node

    def visit_For(self, node):
        it = node.iter
        is_par = isinstance(it, ast.Call) and isinstance(it.func, ast.Attribute) and it.func.attr == 'prange' and len(it.args) == 1
        self.in_par += 1 if is_par else 0
        self.generic_visit(node)
        self.in_par -= 1 if is_par else 0
        if is_par:
            self.n += 1
            fname = f'__prange_body_{self.n}'
            fdef = ast.FunctionDef(name=fname, args=ast.arguments(posonlyargs=[], args=[ast.arg(arg=node.target.id)], kwonlyargs=[], kw_defaults=[], defaults=[]),
                                   body=node.body, decorator_list=[], type_params=[])
            call = ast.Expr(ast.Call(func=ast.Name(id='__par', ctx=ast.Load()), args=[ast.Name(id=fname, ctx=ast.Load()), it.args[0]], keywords=[]))
            return [fdef, call]
        return node


def unwrap(x):
    return x.a if isinstance(x, Shared) else x


def threaded_source(dispatcher, sched, overrides=None, share=()):
    """Returns a Python function executing the kernel's real source with prange loops under `sched`.
    Globals of the kernel's module are used, with njit callees replaced by their py_func (so that proxies
    can flow into them) unless overridden."""
    py = dispatcher.py_func
    src = textwrap.dedent(inspect.getsource(py))
    tree = ast.parse(src)
    fdef = tree.body[0]
    fdef.decorator_list = []
    tree = _Rewrite(share).visit(tree)
    ast.fix_missing_locations(tree)
    g = dict(py.__globals__)
    import types
    for k, v in list(g.items()):
        if hasattr(v, 'py_func'):
            # re-bound to the new namespace: helpers extracted from the kernel call each other interpreted as well, so proxies flow through any depth
            pf = v.py_func
            nf = types.FunctionType(pf.__code__, g, pf.__name__, pf.__defaults__, pf.__closure__)
            nf.__kwdefaults__ = pf.__kwdefaults__
            g[k] = nf
    g['__par'] = sched.par
    g['__share'] = lambda x, nm: x if (isinstance(x, Shared) or not isinstance(x, np.ndarray)) else Shared(x, nm, sched)
    if overrides:
        g.update(overrides)
    # nested callees also look up their own module globals: patch transitively for the same module
    code = compile(tree, f'<threaded {py.__name__}>', 'exec')
    exec(code, g)
    return g[py.__name__]


def explore(build, check, max_schedules=40, seed=0, random_schedules=3):
    """Conflict-directed schedule exploration.
    build(sched, par_hook) -> zero-arg callable running the kernel on fresh data and returning its result;
    par_hook(inner_par) must be installed as the kernel's __par so that passes can be counted.
    check(result) -> None or a description of the disagreement with the serial semantics.
    Strategy: one recording run (threads in index order) finds cells accessed by more than one thread of the same
    prange with at least one write; for each such read event: run its thread up to just after the read, run all other
    threads of the pass to completion, then resume it (the shape of every TLC lost-update counterexample); plus a few
    seeded random interleavings."""
    import random
    sc = Scheduler()
    passes = []

    def hook_rec(inner):
        def par(body, n):
            start = len(sc.log)
            inner(body, n)
            passes.append(sc.log[start:])
        return par
    res = build(sc, hook_rec)()
    bad = check(res)
    if bad:
        return dict(schedules=1, problem=f'threads run one after another in index order: {bad}')
    cands = []
    for pi, plog in enumerate(passes):
        acc = {}
        for (tid, kind, name, idx) in plog:
            a = acc.setdefault((name, idx), [set(), False])
            a[0].add(tid)
            a[1] = a[1] or kind == 'W'
        shared = {c for c, (t, w) in acc.items() if len(t) > 1 and w}
        cnt = {}
        for (tid, kind, name, idx) in plog:
            k = cnt.get(tid, 0)
            cnt[tid] = k + 1
            if kind == 'R' and (name, idx) in shared:
                cands.append((pi, tid, k, name, idx))
    nsch = 1
    step = max(1, len(cands) // max_schedules)
    for (pi, A, k, name, idx) in cands[::step][:max_schedules]:
        state = dict(passno=-1)

        def policy(s, live, A=A, k=k):
            if state['passno'] == pi and A in live:
                if s.nops.get(A, 0) <= k:
                    return A
                others = [t for t in live if t != A]
                return others[0] if others else A
            return live[0]
        sc2 = Scheduler(policy)

        def hook2(inner):
            def par(body, n):
                state['passno'] += 1
                inner(body, n)
            return par
        res = build(sc2, hook2)()
        nsch += 1
        bad = check(res)
        if bad:
            return dict(schedules=nsch, problem=f'prange #{pi}: thread {A} reads {name}{list(idx)}, the other threads of the loop run, then it continues: {bad}')
    rng = random.Random(seed)
    for r in range(random_schedules):
        sc3 = Scheduler(lambda s, live: rng.choice(live))
        res = build(sc3, lambda inner: inner)()
        nsch += 1
        bad = check(res)
        if bad:
            return dict(schedules=nsch, problem=f'random interleaving (seed {seed}, #{r}): {bad}')
    return dict(schedules=nsch, problem=None, shared_candidates=len(cands))


# ------------------------------------------------------------------ TSC
def _tsc_particles(n1d, p, o, Q, cell):
    """lattice particles within 2 cells of every stripe boundary (incl. ties), one per lattice point"""
    W = n1d * Q / p
    ms = set()
    for s in range(p + 1):
        b = int(round(s * W))
        for d in range(-2 * Q, 2 * Q + 1):
            ms.add((b + d) % (n1d * Q))
    ms = sorted(ms)
    pos = np.full((len(ms), 3), 1.25 * cell, dtype=np.float64)   # cubic grid below: every product is dyadic => exact sums
    pos[:, 0] = np.array(ms) * (cell / Q)
    return pos


def replay_tsc(n1d, p, o, Q, max_schedules=40, drop=()):
    """drop: stripes left without particles (the pass structure must not depend on which stripes are occupied)"""
    import warnings
    from abacusnbody.analysis import tsc
    cell = 4.0
    box = n1d * cell
    pos = _tsc_particles(n1d, p, o, Q, cell)
    if drop:
        stripe = np.minimum(np.floor(pos[:, 0] * p / box).astype(int), p - 1)
        pos = pos[~np.isin(stripe, list(drop))]
    w = (1.0 + (np.arange(len(pos)) % 3)).astype(np.float64)
    with warnings.catch_warnings():
        warnings.simplefilter('ignore')
        pp, starts, wp = tsc.partition_parallel(pos, p, box, weights=w, nthread=2)
    off = o * cell / Q
    shape = (n1d, n1d, n1d)
    # serial reference with the same source
    ref = np.zeros(shape)
    for s in range(p):
        tsc._tsc_scatter.py_func(pp[starts[s]:starts[s + 1]], ref, box, weights=wp[starts[s]:starts[s + 1]], offset=off)
    def build(sc, hook):
        fn = threaded_source(tsc._tsc_parallel, sc, share='*')
        fn.__globals__['__par'] = hook(sc.par)
        g = Shared(np.zeros(shape), 'dens', sc)
        return lambda: (fn(pp, starts, g, box, wp, off), g.a)[1]

    def check(grid):
        if np.array_equal(grid, ref):
            return None
        return (f'grid differs from the serial deposit by {float(np.abs(grid - ref).max())} '
                f'(total {float(grid.sum())} vs {float(ref.sum())})')
    r = explore(build, check, max_schedules=max_schedules)
    return dict(schedules=r['schedules'], lost=bool(r['problem']), detail=r['problem'] or '', shared_candidates=r.get('shared_candidates'))
