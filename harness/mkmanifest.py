"""Regenerates /verif/MANIFEST.json from the table below (run by hand after adding a check)."""
import json, os
ROOT = os.path.dirname(os.path.dirname(os.path.abspath(__file__)))

CHECKS = {
 'C19': dict(
    design='DESIGN.md §5 C19',
    technique='TLA+ spec Cumsum.tla: TLC exhaustive check of the loop model (layer A) against numpy.cumsum semantics (layer D) + TLC-enumerated cases replayed on the real compiled kernel in sentinel arenas + TLC trace validation of recorded access logs',
    text='TLC visits every (input<=MaxN over 4 value classes, flags, offset, output length) configuration of the cumsum loop model and proves InBounds/RefinesD; every one of those cases is executed on the real cumsum (7 dtype pairings, compiled with guard cells and two poisons, interpreted, NUMBA_BOUNDSCHECK=1) and compared with the spec-computed result; access logs of the real source are validated against the model by TLC.',
    note='Small scope (N<=4 quick, N<=5 thorough); numpy.cumsum semantics transcribed in layer D; numba wraparound indexing model; empty reflected list cannot be typed by numba and is excluded.'),
 'C14': dict(
    design='DESIGN.md §5 C14',
    technique='TLA+ spec BloscStream.tla: TLC exhaustive exploration of the decompress state machine under every chunking + TLC-enumerated chunkings replayed on the real decompress + TLC validation of hook traces (BloscTrace.tla)',
    text='TLC explores every way the environment can cut 11 frame sets into read chunks (incl. empty chunks) and proves alignment/accounting/final-state invariants of the reassembly state machine; three broken variants are rejected as positive controls; every chunking of streams up to 12 bytes is replayed on the real BloscCompressor.decompress (bytes, length, untouched tail, chunk-boundary state via hook); streams produced by the real compress() for all (n<=9, itemsize, block size) are checked against the writer spec, round-tripped under random chunkings, and their hook traces validated by TLC.',
    note='Blosc codec replaced by a shim (marker byte + raw bytes): only framing and reassembly are verified. asdf file layer not exercised. Small frame sets; longer streams sampled.'),
 'C07': dict(
    design='DESIGN.md §5 C07',
    technique='TLA+ spec TscStripes.tla: TLC sweep of the stripe-safety predicate over all accepted configurations + TLC interleaving model of the two-pass deposit; decisions and footprints observed on the real tsc_parallel judged by TLC (TscDecisions.tla); TLC-counterexample-shaped schedules replayed on the real kernel source',
    text='TLC proves that every configuration accepted by the (transcribed) rule keeps same-pass stripes on disjoint rows (n1d<=48/96, nthread<=16/32, 8 sub-cell offsets, ties and closed stripe boundaries) and explores every interleaving of non-atomic read/write deposits for the narrowest accepted stripes (controls: 2-cell stripes and odd stripe counts lose updates). Every (n1d, nthread, npartition) decision is then observed on the real tsc_parallel via the tsc_config hook and judged by TLC; per-stripe row footprints recorded from the real partition_parallel/_tsc_scatter are checked for same-pass conflicts by TLC; adversarial schedules are replayed on the real _tsc_parallel source; compiled multi-thread results are compared bit-exactly with one thread on dyadic inputs.',
    note='Lattice positions (1/4 cell) with both tie resolutions; float effects below the lattice are outside the model. Compiled races are not forced (probabilistic); forced schedules run the interpreted kernel source.'),
 'C17': dict(
    design='DESIGN.md §5 C17',
    technique='TLA+ spec Partition.tla: TLC interleaving model of histogram/prefix-sum/scatter + TLC-enumerated inputs replayed on the compiled partition_parallel + schedule replay on the real source',
    text='TLC explores all interleavings of T<=3 workers over every input of length <=4/5 (lattice incl. stripe boundaries, duplicates, BoxSize) and proves no double write, in-bounds pointers, correct starts and a stripe-ordered permutation (three broken variants rejected). Every enumerated input is run through the compiled partition_parallel across coord x dtype x weights x sort x 1..16 threads and compared with the spec (starts, stripe members, weight alignment, input unchanged); a TLC-validated twin judges random inputs up to N=3000; conflict-directed and random schedules are replayed on the real source.',
    note='Dyadic boxes make the stripe key exact; for non-dyadic boxes a particle on a stripe boundary is accepted in either neighbour.'),
 'C06': dict(
    design='DESIGN.md §5 C06',
    technique='TLA+ spec MassAssign.tla: TLC proves the code-shaped deposit (round, three weights, wraps) equals the declarative periodic kernel on the whole lattice and emits the expected 1-D deposits; real kernels compared exactly on dyadic inputs',
    text='TLC checks, for every lattice position x offset x grid size, that the algorithm as coded equals the periodic TSC/CIC kernel (A=D), conserves mass, is non-negative, rolls under whole-cell shifts and keeps every index in bounds; it emits the 1-D deposit table from which the separable 3-D expectation is built. _tsc_scatter, tsc_parallel (threads, partitions, coord, sort, wrap), cic_serial (3-D and 2-D) and get_field are compared with it by exact equality on single particles at every lattice point of every axis, multi-particle weighted sets accumulated into pre-filled grids, out-of-range positions and rolls.',
    note='Lattice of 1/4 cell and offsets within half a cell; dyadic boxes (anisotropic shapes restricted to g_i/Box dyadic); TSC on a 3-D array with a one-cell axis is outside the documented domain.'),
 'C08': dict(
    design='DESIGN.md §5 C08',
    technique='TLA+ spec ModeBinning.tla: TLC proves the binning loops as written equal the declarative per-mode assignment for every instance and emits per-cell expected bins/multiplicities; the real bin_kmu/bin_kppi are probed cell by cell against it',
    text='For 139 (quick) instances of mesh size 2..8 (thorough 2..12) x k-edge families x mu/pi binnings TLC evaluates the loops as coded (folding, continue/break, incremental search, multiplicity, edge-array bounds) against the declarative full-mesh assignment (A=D; the original loops are rejected as positive control) and emits every half-mesh cell with its multiplicity and acceptable bins. The real kernels are probed with one indicator mesh per cell (bin, multiplicity, exactly-once), whole-call counts and thread invariance are checked, and value / |k| / (2l+1)P_l means and the l=0-vs-wedges identity are compared with an exact rational oracle; calc_pk_from_deltak and project_3d_to_poles are checked against bin_kmu.',
    note='dk = 1 (L = 2*pi) and half-unit edges make comparisons exact; a mode exactly on an edge may fall on either side; mu edges span [0,1]; P_l is evaluated in float32 inside the kernel (5e-5 tolerance for l>0).'),
 'C04': dict(
    design='DESIGN.md §5 C04',
    technique='TLA+ spec BitFields.tla: TLC checks round-trip / field-independence theorems of the documented layouts and enumerates boundary words with their expected decode; real decoders compared on them in every output mode; TLC-validated twin sweeps the word space',
    text='TLC proves on the specification that RVint encode/decode round-trips, that position and velocity fields are independent, and that every aux field is recovered unchanged under all patterns of the non-field bits, and emits 5144 boundary words with expected integer fields. unpack_rvint / unpack_pids are run on them in all 9 / 31 output-selection modes, float32/float64, four (BoxSize, ppd): values must equal the spec (velocities exactly, positions to 2 ulp) and be identical across modes. A Python twin of layer D, required to agree with TLC on every enumerated word, then judges 3M random RVint words and 1M aux words (quick) or all 2^32 RVint words and 10^7 aux words (thorough).',
    note='The layout transcription in BitFields.tla is taken from the property text / data-model comments; float scaling tolerances: 2 ulp (positions), few ulp (lagr_pos).'),
 'C15': dict(
    design='DESIGN.md §5 C15',
    technique='TLA+ spec Pack9.tla: TLC proves the nibble shuffle is a bijection and enumerates all field values / header-particle interleavings with the expected integer decode; unpack_pack9 and read_asdf replayed on them',
    text='TLC checks that Expand/Pack is a bijection over one-field sweeps of all 4096 values of each of the six fields (x corner patterns), that exactly one particle is produced per non-header record, and emits 245k single-record cases under two cell headers plus all 341 header/particle interleavings of length <=5 with expected integer positions/velocities. unpack_pack9 is run on them (pos/vel/both, allocated/supplied, float32/64, shuffled order with repeated headers), and read_asdf on harness-written pack9 files.',
    note='Positions compared at 1e-3 quantum + 8 ulp(BoxSize), velocities at 8 ulp; streams start with a header.'),
 'C16': dict(
    design='DESIGN.md §5 C16',
    technique='TLA+ spec ReadAsdf.tla: decision table over the complete configuration space enumerated by TLC; every configuration executed by read_asdf on real files',
    text='TLC enumerates all 3179 configurations (raw columns present x colname x load x deprecated flags) with the outcome the documentation fixes (error, or the exact column set) and checks the table theorems; read_asdf is executed for every one on real ASDF files (31 raw-column sets, snapshot and light-cone headers, float32/64): raising vs not, column set, row count, values against the direct decoders, dtype and metadata.',
    note='Decoders are trusted here (verified by C04/C15); explicit colname of an unknown raw column and requests a file type cannot provide are outside the table.'),
 'C20': dict(
    design='DESIGN.md §5 C20',
    technique='TLA+ spec PipeFraming.tla (token stream / error-with-zero-bytes) with TLC-enumerated file sets x requests replayed on unpack_to_pipe and the CLI; recorded write events validated by TLC (PipeTrace.tla)',
    text='TLC enumerates 360 (quick) / ~2000 (thorough) combinations of file sets (1-3 files, 1-D, multi-dimensional and empty columns of widths 1/2/4/8, files lacking a field, a non-file path) and request sequences (repeated and unknown fields) with the expected count/width/payload token stream or error; each is run on real ASDF files through unpack_to_pipe with a recording pipe and, for a subset, through the CLI and a real OS pipe; byte streams are compared and the recorded write-event sequences are validated by TLC; corrupted traces must be rejected.',
    note='Files are uncompressed (asdf 5.4 cannot write blsc); the blsc reader is covered by C14.'),
 'C01': dict(
    design='DESIGN.md §5 C01',
    technique='TLA+ spec CatalogIndex.tla: TLC proves the loader algorithm (re-indexing with A->B carry, cleaned-away zeroing, per-file halo ranges, original+merged zipper) equals the declarative per-halo particle table over the whole small-catalog space; TLC-computed expected tables replayed on real synthetic ASDF catalogs through CompaSOHaloCatalog',
    text='TLC evaluates, for every catalog of <=2 superslabs x <=2 halos over 4 (quick) / 6 (thorough) halo types, every row mask, {A,B,AB} and cleaned on/off, that the loader algorithm as coded stays in bounds, writes every subsample slot exactly once and yields exactly the declarative table and index columns (four broken variants rejected). For 70 (quick) / 600 (thorough) catalogs up to 3x3 halos TLC computes the expected table of unique particle tokens; each catalog is written as real ASDF files (halo_info, halo_rv/pid A/B, cleaning files) and loaded with rotated options (cleaned, A/B, pos/vel/pid subsets, unpack_bits, passthrough, directory / halo_info dir / file list / single file, units off); tokens recovered independently from pos, vel and pid of every halo slice, the index columns and the table length are compared. Light-cone catalogs are checked through their stored index columns.',
    note='Synthetic uncompressed catalogs (the shipped sample is blosc-compressed). Passthrough only with cleaned=True and fields=all. Small-scope exhaustiveness; larger catalogs sampled.'),
 'C03': dict(
    design='DESIGN.md §5 C03',
    technique='TLA+ spec CatalogIndex.tla (row masks, per-file compaction, ConcatTheorem) with TLC as oracle for (catalog, mask) pairs and single-file loads; real loads with filter_func and file lists compared',
    text='The exhaustive TLC run of C01 covers every row mask (layer A models per-file compaction and post-filter file offsets; the pre-filter-offset variant is rejected) and proves the concatenation theorem. For 40 (quick) / 300 (thorough) catalogs TLC computes expected tables for masks all / none / single rows dropped / random / one slab emptied, applied to the real loader as filter_func on id, plus a threshold on N that distinguishes N_total from N (cleaned rule); every ordered subset of the superslab files is loaded as a list and compared with the concatenation of TLC-computed single-file loads; invalid path sets must raise; light-cone catalogs are loaded with filters.',
    note='Same trusted base as C01.'),
 'C02': dict(
    design='DESIGN.md §5 C02',
    technique='TLA+ spec HaloFields.tla: TLC checks the field resolver as coded (normalisation, dependency closure, load order, temporary-column slot types, index columns) for every request sequence; every request replayed on the real loader and compared column-by-column with the fields=all load',
    text='TLC evaluates the resolver model for every duplicate-free request sequence of <=2 (quick) / 3 (thorough) columns over a 19-column universe (one per dtype, shape and derivation class) x cleaned on/off x subsamples none/A/A+B: no request may fail, no requested column may be altered, dependencies load before dependants (the two original defects are rejected as controls). Every enumerated request (1851 quick / ~28k thorough) is loaded from a synthetic catalog: no exception, requested columns present, each bit-identical (dtype, shape, values) to the fields=all load, index columns present when subsamples are loaded; all/default/with-subsamples loads agree; the loader\'s dependency_info matches the model.',
    note='Canonical value = the column in the fields=all load (its units are verified by C05). Passthrough excluded.'),
 'C05': dict(
    design='DESIGN.md §5 C05',
    technique='TLA+ spec HaloUnits.tla: column->unit-kind table and exact rational Value formulas with TLC-checked theorems (on/off factor, principal dispersions sum) and TLC-emitted expected values; synthetic catalogs carrying the sampled stored values loaded and compared',
    text='TLC checks that the kind table classifies every column once, that on/off loads differ by exactly the unit factor of the kind, and the sum-of-squares identity of the principal dispersions, and emits Value for a grid of stored samples (raw n/64, int16 over its full range, reference r100/sigmav3d) x 4 (BoxSize, VelZSpace_to_kms) pairs with Box != Vel. Synthetic catalogs carrying exactly those stored values in every column are loaded with convert_units on/off x cleaned on/off and as a light-cone catalog; all 80+ columns are compared with Value (2e-6), the identity is checked on the loaded numbers, plain and cleaning columns must be unchanged.',
    note='Transcription decisions (sigman = ratio to unit box; cleaning and light-cone columns Plain) are stated in DESIGN.md.'),
 'C09': dict(
    design='DESIGN.md §5 C09',
    technique='TLA+ spec HodSelect.tla: TLC enumerates every abstract host (slice widths incl. empty slices x random number incl. 0 and every edge) with its acceptable outcomes and checks at-most-one / later-tracer / nestedness theorems; abstract hosts concretised on the real gen_gal_cat with widths from the package occupation functions',
    text='TLC enumerates all 2112 abstract hosts and proves AtMostOne, LaterNoChange and NestedFirst on the stacking rule. Every abstract host is realised three ways (midpoint, just beyond the lower edge, just inside the upper edge; edges and 0 exactly) on random masses / assembly-bias / conformity / rank terms, for centrals and satellites, all 7 tracer subsets, box observer and light-cone origin, RSD on/off (34 650 hosts quick): which host carries which tracer, that no host carries two, row order (centrals in halo order, then satellites in particle order), Ncent, host id and mass, positions and the velocity-bias and RSD formulas (line of sight only, wrap) are compared with the specification.',
    note='Slice widths are computed with the package\'s own occupation functions using the argument assembly documented in the property; a random number exactly on an edge may select either neighbour. The NFW satellite path is outside the property; it is specified separately (NfwSats.tla) and reported as extended coverage only.'),
 'C10': dict(
    design='DESIGN.md §5 C10',
    technique='TLA+ spec TwoPass.tla: TLC explores every interleaving of the two-pass count/fill with private prefix offsets and proves block / thread-split arithmetic for all sizes; gen_gal_cat compared bit-for-bit across 1..16 threads; schedule replay of fast_concatenate',
    text='TLC explores all interleavings of T<=3 (4) workers over every classification of <=5 (6) hosts: blocks partition the hosts, offsets stay in bounds, no slot written twice, result = hosts in index order (shared-counter and wrong-prefix variants rejected), and proves that rint(linspace) blocks partition 0..H (H<=80/300, T<=32) and that fast_concatenate\'s proportional split copies every index exactly once (N1,N2<=24/48, T<=16). gen_gal_cat is run with Nthread=1..16 on table sizes 0,1,2,5,15,17,33,101 (+more thorough) x tracer subsets x rsd/observer/ranks: every column, row order and Ncent bit-identical to one thread; fast_concatenate equals numpy for all small (N1,N2,T); conflict-directed and random schedules replayed on its real source with sentinel outputs.',
    note='Compiled runs do not force interleavings; forced schedules use the interpreted source. Hosts the extended-coverage session specification HodSession.tla (NOTE only).'),
 'C12': dict(
    design='DESIGN.md §5 C12',
    technique='TLA+ spec HodStaging.tla: TLC checks, for every arrangement of halo ids over slab files and every flag combination, that the staging algorithm (concatenate, sortedness test, one permutation applied to a set of arrays) leaves every per-halo array aligned; arrangements replayed through the real AbacusHOD constructor on synthetic HDF5 slabs',
    text='TLC enumerates every ordering of <=4 (quick) / 5 (thorough) distinct ids cut into <=3 slab files x flags and proves Aligned / IdsIncreasing for the staging algorithm with the current list of permuted arrays (the original list is rejected as control). Each arrangement (a spread subset in the quick tier) is written as HDF5 subsample slabs + header; AbacusHOD is constructed with rotating flags (assembly bias, shear, ranks, exponential velocities) and with two chunks; every array of halo_data (13 arrays) is decoded to the halo id it describes and compared with hid row by row; particle host indices, host attributes and ranks are checked.',
    note='Synthetic HDF5/ASDF inputs; attributes are injective functions of the id. Hosts the extended-coverage specification PrepareSim.tla of the writer of these files (NOTE only).'),
 'C11': dict(
    design='DESIGN.md §5 C11',
    technique='TLA+ spec MemSafety.tla plus the InBounds invariants of the per-subsystem modules, checked by TLC at boundary constants; every boundary instantiation executed on the real kernels with bounds checking (NUMBA_BOUNDSCHECK=1 / interpreted) and in guarded arenas',
    text='TLC checks the index expressions of the _tsc_parallel pass loops, linear_interp (quotient rounding up at a knot) and getPointsOnSphere for all small sizes (the original expressions are flagged as controls) and re-runs the InBounds invariants of Cumsum, Partition, TwoPass, CatalogIndex (zipper), MassAssign and ModeBinning at boundary constants. 155 boundary instantiations of 30+ kernels (empty arrays, single elements, zero-particle halos, empty superslabs, 2-D CIC grid, positions on the domain boundaries and at BoxSize, offsets of half a cell, edges beyond Nyquist, pimax below the mesh, lookups one ulp inside the last knot, fewer items than threads, odd stripe counts) are executed compiled with NUMBA_BOUNDSCHECK=1 (serial kernels) or interpreted with numpy bounds checks (parallel kernels), and compiled as shipped inside guarded arenas; any bounds fault or touched guard is a violation.',
    note='Interpreted execution stands in for compiled parallel kernels (same source). Documented domains as listed in the evidence assumptions; gen_sats_nfw/compute_fast_NFW run interpreted with all tracers enabled (their profile parameters are only defined then); get_shear_nb does not compile with the installed numba and is not exercised.'),
 'C13': dict(
    design='DESIGN.md §5 C13', level='exploration',
    technique='TLA+ spec PowerSym.tla: symmetry generators as actions with the requirement Estimate\' = Estimate; TLC generates all action words (and checks the group facts); the words are replayed step by step on the real calc_power',
    text='Exploration level: the floating-point pipeline is outside TLC arithmetic, so the specification contributes the action structure (permute, whole-cell translate incl. across the boundary, thread count, cross=auto), the TLC-checked group facts and the exhaustive set of action words of length <=2 (quick) / 3 (thorough); each word is replayed on calc_power for 4 (6) pipeline configurations (TSC/CIC x compensated x interlaced x mesh 8/9/12 x binnings x poles) with the table compared after every action: N_mode, k/mu ranges and shape exactly (N_mode also against bin_kmu on a unit mesh), power/k_avg/poles within 5e-5 of the table maximum (observed 4e-7).',
    note='Dyadic lattice positions make translations exact; thread invariance is decided by C07/C08/C10.'),
}
NA = [
 dict(property_id='C18', reason='Pure real-valued geometry (square roots, sines, cross products) on a fixed finite domain of 65 340 codes: no state, order, schedule or index structure for a TLA+ transition system, and orthonormality/coverage are floating-point facts outside TLC integer arithmetic; an exhaustive numeric sweep would be a different technique (DESIGN.md §7).'),
]

def main():
    allp = [json.loads(l)['id'] for l in open(os.path.join(ROOT, 'properties.jsonl'))]
    checks = []
    for pid in allp:
        if pid not in CHECKS:
            continue
        c = CHECKS[pid]
        checks.append(dict(property_id=pid, quick_cmd=f'./check {pid} --tier quick', thorough_cmd=f'./check {pid} --tier thorough',
                           evidence_file=f'/verif/evidence/{pid}.json', replay_cmd_template=f'./check {pid} --replay {{path}}',
                           engine='tlc+harness',
                           level_claimed=dict(category=c.get('level', 'model_checking'), text=c['text'], design_ref=c['design']),
                           level_note=c['note'], technique=c['technique']))
    na = list(NA)
    pending = [p for p in allp if p not in CHECKS and p not in [x['property_id'] for x in NA]]
    for p in pending:
        na.append(dict(property_id=p, reason='check not built yet in this round (planned, see DESIGN.md §5); not claimed until its TLA+ module and conformance harness are committed'))
    hooks_commits = [l.strip() for l in open(os.path.join(ROOT, 'hooks_commits.txt'))] if os.path.exists(os.path.join(ROOT, 'hooks_commits.txt')) else []
    m = dict(version=1, setup_cmd='sh ./setup.sh',
             hooks=dict(guard='ABACUSUTILS_VERIF', enable='ABACUSUTILS_VERIF=1 in the environment of the check (set by ./check); abacusnbody is imported from /repo\'s working tree, nothing is installed or cached',
                        baseline_off_cmd='cd /repo && env -u ABACUSUTILS_VERIF /venv/bin/python -m pytest -ra -q -p no:cacheprovider --timeout=900 --continue-on-collection-errors',
                        source_commits=hooks_commits, add_only=True),
             engines=[dict(name='tlc+harness', path='/verif/check', serves_properties=[c['property_id'] for c in checks],
                           kind_free_text='TLA+ specifications in /verif/spec checked by TLC 1.8 (exhaustive + enumerator/oracle + trace validation); Python conformance harness in /verif/harness replays TLC-generated cases/behaviours into the real code from /repo and validates recorded executions against the spec')],
             checks=checks, not_applicable=na,
             notes='One TLA+ module per subsystem under spec/. Verdict policy, trusted base and findings: DESIGN.md. known_findings.txt lists fixed defects (fix: commits in /repo).')
    with open(os.path.join(ROOT, 'MANIFEST.json'), 'w') as f:
        json.dump(m, f, indent=1)
    import jsonschema
    jsonschema.validate(m, json.load(open('/root/.vp/MANIFEST.schema.json')))
    print('manifest ok:', [c['property_id'] for c in checks])

main()
