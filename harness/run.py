"""Dispatcher: ./check <ID> --tier quick|thorough [--replay path]."""
import argparse
import importlib
import os
import sys
import traceback


def main():
    ap = argparse.ArgumentParser()
    ap.add_argument('pid')
    ap.add_argument('--tier', default=os.environ.get('VERIF_TIER', 'quick'), choices=['quick', 'thorough'])
    ap.add_argument('--replay', default=None)
    a = ap.parse_args()
    pid = a.pid.upper()
    seed = int(os.environ.get('VERIF_SEED', '0') or 0)
    if os.environ.get('VERIF_WORKER') != '1':
        # The check itself runs in a worker process: a compiled kernel that corrupts memory can kill the interpreter, and a
        # crash of the library on valid inputs must be reported as a violation of the property under test, not as silence.
        import json
        import signal
        import subprocess
        import time
        t0 = time.time()
        # watchdog: a library call that never returns (e.g. a loop that stops consuming its input) must not hang the check for ever.
        # The budgets are far above the run times of a loaded machine (quick checks take 10 s - 10 min, thorough ones up to ~1 h).
        budget = float(os.environ.get('VERIF_TIMEOUT') or (5400 if a.tier == 'quick' else 6 * 3600))
        root0 = os.path.dirname(os.path.dirname(os.path.abspath(__file__)))
        tracef = os.path.join(root0, '.scratch', f'watchdog-{pid}-{os.getpid()}.txt')
        os.makedirs(os.path.dirname(tracef), exist_ok=True)
        proc = subprocess.Popen([sys.executable, '-u', os.path.abspath(__file__)] + sys.argv[1:], env=dict(os.environ, VERIF_WORKER='1', VERIF_WATCHDOG_FILE=tracef))
        try:
            rc = proc.wait(timeout=budget)
        except subprocess.TimeoutExpired:
            try:
                proc.send_signal(signal.SIGUSR1)          # the worker dumps the Python stacks of all its threads
                time.sleep(3)
            except Exception:
                pass
            proc.kill()
            proc.wait()
            where = ''
            try:
                where = ' | '.join(ln.strip() for ln in open(tracef).read().splitlines() if ln.strip().startswith('File'))[:600]
            except Exception:
                pass
            rpd = os.environ.get('VERIF_REPLAY_DIR') or os.path.join(root0, 'replays')
            evd = os.environ.get('VERIF_EVIDENCE_DIR') or os.path.join(root0, 'evidence')
            os.makedirs(os.path.join(rpd, pid), exist_ok=True)
            os.makedirs(evd, exist_ok=True)
            rp = os.path.join(rpd, pid, 'no-result-within-budget.json')
            json.dump(dict(property=pid, key='no-result-within-budget', what=f'the check did not finish within {budget:.0f} s; stacks at the time: {where}', payload=dict(tier=a.tier, seed=seed)), open(rp, 'w'), indent=1)
            json.dump(dict(property_id=pid, tier=a.tier, seed=seed, level='other',
                           coverage=dict(explanation='worker process stopped by the watchdog: no coverage recorded', evaluations=1, distinct_nontrivial=0, samples=['no-result-within-budget']),
                           assumptions=[], wall_s=round(time.time() - t0, 2), violations=1), open(os.path.join(evd, f'{pid}.json'), 'w'), indent=1)
            print(f'DETAIL property={pid} key=no-result-within-budget :: no result within {budget:.0f} s (a library call that does not return); Python stacks: {where}')
            print(f'VIOLATION property={pid} replay={rp}')
            sys.exit(1)
        finally:
            try:
                os.remove(tracef)
            except OSError:
                pass
        if rc < 0 or rc in (134, 139):
            sig = -rc if rc < 0 else rc - 128
            try:
                name = signal.Signals(sig).name
            except Exception:
                name = str(sig)
            root = os.path.dirname(os.path.dirname(os.path.abspath(__file__)))
            rpd = os.environ.get('VERIF_REPLAY_DIR') or os.path.join(root, 'replays')
            evd = os.environ.get('VERIF_EVIDENCE_DIR') or os.path.join(root, 'evidence')
            os.makedirs(os.path.join(rpd, pid), exist_ok=True)
            os.makedirs(evd, exist_ok=True)
            rp = os.path.join(rpd, pid, f'crash-{name}.json')
            json.dump(dict(property=pid, key=f'crash-{name}', what=f'the interpreter was killed by {name} while the check was executing the library on valid inputs',
                           payload=dict(tier=a.tier, seed=seed)), open(rp, 'w'), indent=1)
            json.dump(dict(property_id=pid, tier=a.tier, seed=seed, level='other',
                           coverage=dict(explanation=f'worker process killed by {name}: no coverage recorded', evaluations=1, distinct_nontrivial=0, samples=[f'crash-{name}']),
                           assumptions=[], wall_s=round(time.time() - t0, 2), violations=1), open(os.path.join(evd, f'{pid}.json'), 'w'), indent=1)
            print(f'DETAIL property={pid} key=crash-{name} :: interpreter killed by {name} while executing the library (memory corruption by a compiled kernel)')
            print(f'VIOLATION property={pid} replay={rp}')
            sys.exit(1)
        sys.exit(rc)
    if os.environ.get('VERIF_WATCHDOG_FILE'):
        import faulthandler
        import signal
        faulthandler.register(signal.SIGUSR1, file=open(os.environ['VERIF_WATCHDOG_FILE'], 'w'), all_threads=True)
    try:
        mod = importlib.import_module(pid.lower())
    except ModuleNotFoundError as e:
        print(f'no check for {pid}: {e}')
        sys.exit(2)
    from common import Check
    chk = Check(pid, a.tier, seed, level=getattr(mod, 'LEVEL', 'model_checking'))
    try:
        if a.replay:
            mod.replay(chk, a.replay)
        else:
            mod.run(chk)
    except SystemExit:
        raise
    except BaseException as e:
        traceback.print_exc()
        # an exception RAISED INSIDE THE LIBRARY for an input of the check (every input the checks build is valid and is handled by the
        # unchanged tree) is a failure of the property under test, not of the machinery; anything raised in the harness itself is exit 2
        tb = traceback.extract_tb(e.__traceback__)
        repo = os.path.realpath(os.environ.get('VERIF_REPO', '/repo'))
        inner = os.path.realpath(tb[-1].filename) if tb else ''
        in_lib = inner.startswith(repo + os.sep) and (os.sep + 'abacusnbody' + os.sep) in inner
        if in_lib and not isinstance(e, (KeyboardInterrupt, MemoryError)):
            where = f'{os.path.relpath(inner, repo)}:{tb[-1].lineno} in {tb[-1].name}'
            chk.violation(f'library-raises-{type(e).__name__}', f'the library raised {type(e).__name__}: {str(e)[:300]} at {where} on an input of this check '
                          f'(the check stopped here; what it explored before is in the evidence)', dict(where=where, error=f'{type(e).__name__}: {str(e)[:300]}'))
            sys.exit(chk.finish())
        print(f'MACHINERY-FAILURE property={pid}')
        chk.finish(machinery_failure=True)
        sys.exit(2)
    sys.exit(chk.finish())


if __name__ == '__main__':
    main()
