"""Dispatcher: ./check <ID> --tier quick|thorough [--replay path]."""
import argparse
import importlib
import os
import sys
import traceback


def main():
    ap = argparse.ArgumentParser()
    ap.add_argument('pid')
    ap.add_argument('--tier', default=os.environ.get('VERIF_TIER', 'quick'), choices=['quick', 'thorough'])
    ap.add_argument('--replay', default=None)
    a = ap.parse_args()
    pid = a.pid.upper()
    seed = int(os.environ.get('VERIF_SEED', '0') or 0)
    try:
        mod = importlib.import_module(pid.lower())
    except ModuleNotFoundError as e:
        print(f'no check for {pid}: {e}')
        sys.exit(2)
    from common import Check
    chk = Check(pid, a.tier, seed, level=getattr(mod, 'LEVEL', 'model_checking'))
    try:
        if a.replay:
            mod.replay(chk, a.replay)
        else:
            mod.run(chk)
    except SystemExit:
        raise
    except BaseException:
        traceback.print_exc()
        print(f'MACHINERY-FAILURE property={pid}')
        chk.finish(machinery_failure=True)
        sys.exit(2)
    sys.exit(chk.finish())


if __name__ == '__main__':
    main()
