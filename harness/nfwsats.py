"""Extended coverage (hosted by C09): satellites on an NFW profile — spec/NfwSats.tla.

  M1  TLC: np.repeat host assignment (RepeatOK) and the rint/linspace thread blocks (BlocksOK) for all small count vectors and thread
      counts; the set of tracer subsets whose satellites are placed with zeroed profile parameters (Collapsed) under the coded and the
      intended variant
  M2  TLC emits every count vector of <= 4 halos x <= 2 satellites with the host of every satellite row; compute_fast_NFW is called on
      each x thread counts with draws that need no re-draw: ids, masses, positions (exact formula) and, with f_sigv = 0, velocities
  observed: gen_gal_cat(nfw=True) for tracer subsets with and without ELG: satellites at radius 0 exactly when the model says so
Reported with chk.extended (never a VIOLATION of C09: the NFW path is outside its statement).
"""
import os
import warnings

import numpy as np

import hodcommon as hc
from tlc import run_tlc, read_json

NAME = 'NFW satellites: host assignment, thread blocks and placement on the profile'


def run(chk):
    rng = np.random.default_rng(chk.seed + 5)
    problems, obs = [], []
    cf = os.path.join(chk.scratch, 'nfw_cases.json')
    vf = os.path.join(chk.scratch, 'nfw_collapsed.json')
    text = ("---- MODULE MC_NfwSats ----\nEXTENDS NfwSats\nVARIABLE v\nASSUME StructureTheorem(5, 2, 6)\nASSUME Emit(4, 2)\n"
            "ASSUME JsonSerialize(IOEnv.VERDICT_OUT, <<SetToSeq(Collapsed(8))>>)\nInit == v = 0\nNext == v' = v\n====\n")
    run_tlc(chk, 'MC_NfwSats', module_text=text, cfg_text='CONSTANTS\n  Variant = "coded"\nINIT Init\nNEXT Next\n', env={'CASES_OUT': cf, 'VERDICT_OUT': vf}, timeout=900)
    cases = read_json(cf)
    coded = read_json(vf)[0]                       # values of want_ELG for which satellites collapse, as coded
    text2 = ("---- MODULE MC_NfwSatsI ----\nEXTENDS NfwSats\nVARIABLE v\nASSUME Collapsed(8) = {}\nInit == v = 0\nNext == v' = v\n====\n")
    run_tlc(chk, 'MC_NfwSatsI', module_text=text2, cfg_text='CONSTANTS\n  Variant = "intended"\nINIT Init\nNEXT Next\n', record=False, timeout=300)
    chk.part('nfw_M1', count_vectors=len(cases), collapsed_when_want_ELG_in=coded)
    # ---- M2 on compute_fast_NFW
    from abacusnbody.hod.GRAND_HOD import compute_fast_NFW, gen_gal_cat
    ncall = 0
    for ci, c in enumerate(cases):
        ns = np.asarray(c['ns'], dtype=np.int64)
        H = len(ns)
        tot = int(ns.sum())
        hid = (np.arange(H, dtype=np.int64) * 7 + 100)
        hpos = rng.uniform(-900, 900, (H, 3))
        hvel = rng.normal(0, 300, (H, 3))
        vrms = rng.uniform(100, 500, H)
        conc = rng.uniform(3, 10, H)
        mass = 10 ** rng.uniform(12, 14, H)
        rvir = rng.uniform(0.2, 2, H)
        rd = rng.normal(0, 1, (tot, 3))
        rd /= np.maximum(np.linalg.norm(rd, axis=1, keepdims=True), 1e-300)
        draw = rng.uniform(0.05, 2.9, max(tot, 1) + 3)            # <= every concentration: no re-draw, ind = i
        for T in ([1, 2, 3, 5, 16] if ci % 4 == 0 else [[1, 2, 3, 5, 16][ci % 5]]):
            resc = [1.0, 0.5][(ci + T) % 2]
            fs = [0.0, 1.0][ci % 2]
            try:
                with warnings.catch_warnings():
                    warnings.simplefilter('ignore')
                    r = compute_fast_NFW(draw, hid, hpos[:, 0].copy(), hpos[:, 1].copy(), hpos[:, 2].copy(), hvel[:, 0].copy(), hvel[:, 1].copy(), hvel[:, 2].copy(),
                                         vrms, conc, mass, rvir, rd, ns, fs, 'rd_normal', T, 0.0, 1.0, resc)
            except Exception as e:  # noqa
                problems.append(f'compute_fast_NFW counts={c["ns"]} Nthread={T}: {type(e).__name__}: {str(e)[:120]}')
                continue
            ncall += 1
            hosts = np.asarray(c['hosts'], dtype=np.int64) - 1
            h_id, xs, ys, zs, vx, vy, vz, M = r
            desc = f'compute_fast_NFW counts={c["ns"]} Nthread={T}'
            if len(h_id) != tot or not np.array_equal(np.asarray(h_id), hid[hosts]):
                problems.append(f'{desc}: satellite host ids {np.asarray(h_id).tolist()} != spec {hid[hosts].tolist()}')
                continue
            if not np.array_equal(np.asarray(M), mass[hosts]):
                problems.append(f'{desc}: satellite masses are not the host masses')
            p = draw[:tot] / conc[hosts] * resc * rvir[hosts]
            want = hpos[hosts] + rd * p[:, None]
            got = np.stack([xs, ys, zs], axis=1) if tot else np.zeros((0, 3))
            if not np.allclose(got, want, rtol=1e-12, atol=1e-9):
                bad = int(np.argmax(np.abs(got - want).max(axis=1)))
                problems.append(f'{desc}: satellite row {bad} at {got[bad].tolist()}, formula gives {want[bad].tolist()} (a row not written, or written from another host)')
            if fs == 0.0 and tot and not np.allclose(np.stack([vx, vy, vz], axis=1), hvel[hosts], rtol=1e-12, atol=1e-9):
                problems.append(f'{desc}: with f_sigv = 0 the satellite velocities are not the host velocities')
            if tot and not np.all(np.isfinite(np.stack([vx, vy, vz], axis=1))):
                problems.append(f'{desc}: non-finite satellite velocity (row never written)')
    chk.part('nfw_M2', calls=ncall)
    # ---- observed: the full path for tracer subsets
    Hh = hc.make_halos(rng, 300)
    Pp = hc.make_particles(rng, Hh, 600)
    idx = {int(i): k for k, i in enumerate(Hh['hid'])}
    draws = rng.uniform(0.01, 2.9, 200000)

    def tracers(names):
        out = {}
        for n in names:
            d = dict(hc.TRACERS[n], f_sigv=1.0)
            if n == 'ELG':
                d.update(exp_frac=0.0, exp_scale=1.0, nfw_rescale=1.0)
            out[n] = d
        return out
    nobs = 0
    for names in (['LRG'], ['QSO'], ['LRG', 'QSO'], ['ELG'], ['LRG', 'ELG'], ['LRG', 'ELG', 'QSO']):
        for rsd in (False, True):
            try:
                with warnings.catch_warnings():
                    warnings.simplefilter('ignore')
                    m = gen_gal_cat({k: v.copy() for k, v in Hh.items()}, {k: v.copy() for k, v in Pp.items()}, tracers(names), hc.params(), Nthread=[1, 4, 16][nobs % 3],
                                    enable_ranks=False, rsd=rsd, nfw=True, NFW_draw=draws, write_to_disk=False, verbose=False)
            except Exception as e:  # noqa
                problems.append(f'gen_gal_cat(nfw=True) tracers={names} rsd={rsd}: {type(e).__name__}: {str(e)[:200]}')
                continue
            nobs += 1
            for n in names:
                g = m[n]
                nc = int(g['Ncent'])
                ids = np.asarray(g['id'][nc:]).astype(np.int64)
                if len(ids) == 0:
                    continue
                if any(int(i) not in idx for i in ids):
                    problems.append(f'gen_gal_cat(nfw=True) tracers={names}: {n} satellite carries an id that is no halo')
                    continue
                k = np.array([idx[int(i)] for i in ids])
                if not np.array_equal(np.asarray(g['mass'][nc:]), Hh['hmass'][k]):
                    problems.append(f'gen_gal_cat(nfw=True) tracers={names}: {n} satellite masses are not the host masses')
                if np.any(np.diff(k) < 0):
                    problems.append(f'gen_gal_cat(nfw=True) tracers={names}: {n} satellites are not in host order')
                dx = np.stack([g['x'][nc:], g['y'][nc:]], axis=1) - Hh['hpos'][k][:, :2]
                r2 = np.sqrt((dx ** 2).sum(axis=1))                           # transverse distance (unaffected by RSD)
                collapsed = bool(np.all(r2 == 0.0))
                model = ('ELG' in names) in coded
                if collapsed != model:
                    problems.append(f'model-drift: tracers={names} {n}: satellites collapsed onto the host = {collapsed}, layer A says {model}')
                if collapsed:
                    obs.append(f'observation: with nfw=True and tracers {names} every {n} satellite sits exactly at its host centre (exp_frac / nfw_rescale are only '
                               f'defined under `if want_ELG:` in gen_sats_nfw and read as zero otherwise)')
                elif np.any(r2 > Hh['hrvir'][k] * 1.0 + 1e-9):
                    problems.append(f'gen_gal_cat(nfw=True) tracers={names}: a {n} satellite lies outside Rvir * nfw_rescale of its host')
                if rsd:
                    z = np.asarray(g['z'][nc:])
                    if np.any(z > hc.LBOX / 2):
                        obs.append('observation: with rsd the NFW satellites are wrapped into [0, L) (`% lbox`) while centrals and particle satellites use [-L/2, L/2)')
    chk.part('nfw_observed', runs=nobs)
    chk.add_cases(ncall + nobs, traces=ncall + nobs)
    detail = '; '.join(list(dict.fromkeys(problems))[:4] + list(dict.fromkeys(obs))[:3])
    chk.extended(NAME, not problems, detail)
