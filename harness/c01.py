"""C01 — each halo row indexes exactly its own subsample particles.

spec/CatalogIndex.tla.
  M1  TLC, exhaustively over all catalogs of <=2 superslabs x <=2 halos (4 / 6 halo types) x all row masks x {A,B,AB} x
      cleaned on/off: the loader's algorithm (layer A) equals the declarative table (layer D), every read/write is in
      bounds, every slot written once; four broken variants are rejected
  M2  TLC computes the expected subsample table / index columns for harness-chosen catalogs (all 1-slab catalogs of <=2
      halos + random catalogs of <=3 slabs x <=3 halos)
  spec->code: each catalog is written as real ASDF files and loaded with CompaSOHaloCatalog over rotated loader options
      (cleaned, A/B/both, pos/vel/pid subsets, unpack_bits, passthrough, path forms, light-cone layout); particle tokens
      are recovered independently from pos, vel, pid per halo slice and compared with the spec
"""
import json
import os

import numpy as np

import catcommon as cc
import synth_catalog as sc

SUBSETS = [('pos', 'vel', 'pid'), ('pos',), ('vel',), ('pid',), ('rv',), ('pos', 'pid'), ('vel', 'pid')]
UNPACK = [False, True, ['density'], ['lagr_pos', 'tagged'], ['pid', 'lagr_idx']]


def run(chk):
    rng = np.random.default_rng(chk.seed)
    chk.cov['rule'] = ('catalogs: every single-superslab catalog of <=2 halos over 6 halo types (plain, zero-particle+merged, cleaned-away, original+merged, '
                       'large gaps, no particles) plus random catalogs of <=3 superslabs x <=3 halos; loader options rotated per catalog; '
                       'non-trivial = load whose subsample table is non-empty; distinct by (catalog, options)')
    chk.assumptions += ['synthetic catalogs (the sample simulation is blosc-compressed and unreadable here); uncompressed ASDF',
                        'passthrough is exercised with cleaned=True and fields=all (passthrough with cleaned=False, or with the default field set, raises upstream; not claimed)',
                        'light-cone catalogs: slices are taken from the single lc_pid_rv table by the stored npstartA/npoutA']
    cc.m1(chk, chk.quick)
    ncat = 70 if chk.quick else 600
    cats = cc.gen_catalogs(rng, ncat)
    cases = []
    for ci, cat in enumerate(cats):
        full = [[True] * len(sl) for sl in cat]
        for cleaned in (True, False):
            for abs_ in (['A'], ['B'], ['A', 'B']):
                cases.append(dict(cat=cat, mask=full, ABs=abs_, cleaned=cleaned, ci=ci))
    # single-file and partial-list loads of multi-slab catalogs (the particle / cleaning files must be those of the SAME superslab number)
    for ci, cat in enumerate(cats):
        if len(cat) >= 2:
            for sel in ([len(cat) - 1], list(range(1, len(cat)))):
                m = [[s in sel] * len(sl) for s, sl in enumerate(cat)]
                cases.append(dict(cat=cat, mask=m, ABs=['A', 'B'], cleaned=bool((ci + len(sel)) % 2), ci=ci, partial=sel))
    cc.oracle(chk, cases)
    chk.part('M2_oracle', cases=len(cases), catalogs=len(cats))
    import gc
    gc.collect()
    gc.freeze()          # the loader calls gc.collect() repeatedly: keep the harness's own objects out of it
    nload = nontriv = 0
    root = os.path.join(chk.scratch, 'cat')
    by_cat = {}
    for c in cases:
        by_cat.setdefault(c['ci'], []).append(c)
    for ci, cat in enumerate(cats):
        zd = sc.write_catalog(root, cat)
        for k, c in enumerate(by_cat[ci]):
            r = ci * 6 + k
            sub = SUBSETS[r % len(SUBSETS)]
            ub = UNPACK[(r // 2) % len(UNPACK)] if ('pid' in sub) else False
            passthrough = c['cleaned'] and (r % 11 == 5)
            pathform = ['zdir', 'halo_info', 'filelist', 'strpath'][r % 4]
            if c.get('partial'):
                pathform = 'partial-list' if len(c['partial']) > 1 else 'single-file'
                path = [os.path.join(zd, 'halo_info', f'halo_info_{s:03d}.asdf') for s in c['partial']]
                if len(path) == 1:
                    path = path[0]
                passthrough = False
            elif pathform == 'zdir':
                path = zd
            elif pathform == 'strpath':
                path = str(zd) + '/'
            elif pathform == 'halo_info':
                path = os.path.join(zd, 'halo_info')
            else:
                path = [os.path.join(zd, 'halo_info', f'halo_info_{s:03d}.asdf') for s in range(len(cat))]
                if len(path) == 1 and r % 8 == 2:
                    path = path[0]
            subs = {ab: True for ab in c['ABs']}
            if passthrough:
                subs.update(rvint=('pos' in sub or 'vel' in sub or 'rv' in sub), packedpid='pid' in sub)
                if not (subs['rvint'] or subs['packedpid']):
                    subs['rvint'] = True
                cols = [x for x in ('rvint', 'packedpid') if subs.get(x)]
                kw = dict(cleaned=True, subsamples=subs, passthrough=True, fields='all')
            else:
                for x in sub:
                    subs[x] = True
                cols = [x for x in ('pos', 'vel', 'pid') if x in sub or (x in ('pos', 'vel') and 'rv' in sub)]
                kw = dict(cleaned=c['cleaned'], subsamples=subs, unpack_bits=ub, fields=(['id', 'N'] if r % 5 else 'DEFAULT_FIELDS'))
                if r % 7 == 3:
                    kw['convert_units'] = False
            if r % 3 == 1:
                # the key order of the subsamples dict carries no meaning: B before A, columns first
                kw['subsamples'] = dict(reversed(list(kw['subsamples'].items())))
            desc = f'catalog #{ci} {[[(h["nA"], h["gA"], h["mA"], h["nB"], h["mB"], h["away"]) for h in sl] for sl in cat]} (nA,gA,mA,nB,mB,away) load {kw} path={pathform}'
            payload = dict(cat=cat, kw={k2: (v if not isinstance(v, np.ndarray) else v.tolist()) for k2, v in kw.items()}, pathform=pathform, ABs=c['ABs'])
            tag = ('passthrough' if passthrough else ('cleaned' if c['cleaned'] else 'uncleaned')) + '-' + ''.join(c['ABs'])
            try:
                cobj = cc.load(path, **kw)
            except Exception as e:  # noqa
                chk.violation(f'{tag}-raises-{type(e).__name__}', f'{desc}: {type(e).__name__}: {e}', payload)
                continue
            nload += 1
            nontriv += 1 if c['table'] else 0
            ok = cc.compare(chk, 'C01', c, cobj, cols, tag, desc, payload)
            # unpack_bits fields seen through the catalog (C04 layout on the same tokens)
            if ok and not passthrough and ub and 'pid' in sub and len(c['table']):
                t = np.array(c['table'], dtype=np.int64)
                ssub = cobj.subsamples
                want = {'density': (t % 1024) ** 2, 'tagged': t % 2}
                for f, wv in want.items():
                    if f in ssub.colnames and not np.array_equal(np.asarray(ssub[f]).astype(np.int64), wv):
                        chk.violation(f'{tag}-unpack_bits-{f}', f'{desc}: subsample field {f} does not match the particles of the slices', payload)
                if 'lagr_idx' in ssub.colnames:
                    wl = np.stack([t % 32768, t // 32768, (t * 7) % 32768], axis=1)
                    if not np.array_equal(np.asarray(ssub['lagr_idx']).astype(np.int64), wl):
                        chk.violation(f'{tag}-unpack_bits-lagr_idx', f'{desc}: lagr_idx does not match the particles of the slices', payload)
            if ci % 25 == 0 and k == 0:
                chk.sample(dict(catalog=cat, options=payload['kw'], expected_table=c['table'], expected_index=c['index']))
    # ---- larger random catalogs judged by the twin (it agreed with TLC on every oracle case above)
    nbig = 0
    for rep in range(6 if chk.quick else 60):
        nsl = int(rng.integers(1, 6))
        cat = [[dict(nA=int(rng.integers(0, 6)), gA=int(rng.integers(0, 4)), mA=int(rng.integers(0, 4)), hA=int(rng.integers(0, 3)),
                     nB=int(rng.integers(0, 5)), gB=int(rng.integers(0, 3)), mB=int(rng.integers(0, 3)), hB=int(rng.integers(0, 3)),
                     away=bool(rng.random() < 0.15)) for _ in range(int(rng.integers(0, 41)))] for _ in range(nsl)]
        if sum(len(sl) for sl in cat) == 0:
            continue
        zd = sc.write_catalog(root, cat)
        for cleaned in (True, False):
            abs_ = [['A', 'B'], ['B'], ['A']][rep % 3]
            c = dict(cat=cat, mask=[[True] * len(sl) for sl in cat], ABs=abs_, cleaned=cleaned)
            c['table'], c['index'] = cc.twin(cat, c['mask'], abs_, cleaned)
            subs = {ab: True for ab in abs_}
            subs.update(pos=True, vel=True, pid=True)
            if rep % 2:
                subs = dict(reversed(list(subs.items())))
            desc = f'random catalog ({nsl} superslabs, {[len(sl) for sl in cat]} halos) cleaned={cleaned} subsamples={subs}'
            try:
                subs0 = dict(subs)                      # the loader consumes keys of the dict it is given
                cobj = cc.load(zd, cleaned=cleaned, subsamples=subs, fields=['id', 'N'])
            except Exception as e:  # noqa
                chk.violation(f'big-raises-{type(e).__name__}', f'{desc}: {type(e).__name__}: {e}', dict(cat=cat, cleaned=cleaned))
                continue
            nbig += 1
            nontriv += 1
            cc.compare(chk, 'C01', c, cobj, ['pos', 'vel', 'pid'], f'big-{"cleaned" if cleaned else "uncleaned"}-{"".join(abs_)}', desc, dict(cat=cat, cleaned=cleaned, ABs=abs_))
            # the same superslab files handed over as a list in another order: every halo keeps ITS OWN particles (its own superslab's files),
            # rows follow the list order (the concatenation property itself is C03's)
            if nsl >= 2 and rep % 2 == 0:
                order = [int(x) for x in rng.permutation(nsl)]
                if order == sorted(order):
                    order = order[::-1]
                flist = [os.path.join(zd, 'halo_info', f'halo_info_{s_:03d}.asdf') for s_ in order]
                try:
                    pobj = cc.load(flist, cleaned=cleaned, subsamples=dict(subs0), fields=['id', 'N'])
                except Exception as e:  # noqa
                    chk.violation(f'filelist-raises-{type(e).__name__}', f'{desc} as file list in order {order}: {type(e).__name__}: {e}', dict(cat=cat, cleaned=cleaned, order=order))
                    continue
                nbig += 1

                def per_halo(o):
                    out = {}
                    tok = cc.project(o, 'pos')
                    for ab in abs_:
                        st = np.asarray(o.halos['npstart' + ab]).astype(np.int64)
                        no = np.asarray(o.halos['npout' + ab]).astype(np.int64)
                        for hid_, a_, n_ in zip(np.asarray(o.halos['id']).astype(np.int64), st, no):
                            out[(int(hid_), ab)] = tok[a_:a_ + n_].tolist()
                    return out
                want_h, got_h = per_halo(cobj), per_halo(pobj)
                want_ids = [1000 + sc.uid(s_, k_) for s_ in order for k_ in range(len(cat[s_]))]
                if np.asarray(pobj.halos['id']).astype(np.int64).tolist() != want_ids:
                    chk.violation('filelist-row-order', f'{desc} as file list in order {order}: halo rows do not follow the list order', dict(cat=cat, cleaned=cleaned, order=order))
                else:
                    badk = [k_ for k_ in want_h if got_h.get(k_) != want_h[k_]]
                    if badk:
                        k0 = badk[0]
                        chk.violation(f'filelist-permuted-slice-{k0[1]}', f'{desc} as file list in order {order}: halo id {k0[0]} subsample {k0[1]} holds particle tokens {got_h.get(k0)} '
                                      f'but its own particles are {want_h[k0]} (token // 4000 = superslab of the particle file)', dict(cat=cat, cleaned=cleaned, order=order))
    nload += nbig
    chk.part('loads', loads=nload, nonempty=nontriv, big_random=nbig)
    # light-cone layout
    nlc = 0
    for rep in range(8 if chk.quick else 60):
        halos = [dict(nA=int(rng.integers(0, 4)), gA=int(rng.integers(0, 3))) for _ in range(int(rng.integers(0, 5)))]
        d = sc.write_lightcone(root, halos)
        lay, plen, _ = sc.layout([dict(h, hA=0, mA=0) for h in halos], 'A')
        sub = SUBSETS[rep % len(SUBSETS)]
        subs = dict(A=True, **{x: True for x in sub})
        cols = [x for x in ('pos', 'vel', 'pid') if x in sub or (x in ('pos', 'vel') and 'rv' in sub)]
        desc = f'light-cone catalog {halos} load subsamples={subs}'
        try:
            cobj = cc.load(d, subsamples=subs, fields=(['N', 'index_halo'] if rep % 2 else 'DEFAULT_FIELDS'))
        except Exception as e:  # noqa
            chk.violation(f'lightcone-raises-{type(e).__name__}', f'{desc}: {type(e).__name__}: {e}', dict(halos=halos))
            continue
        nlc += 1
        st = np.asarray(cobj.halos['npstartA']).astype(np.int64)
        no = np.asarray(cobj.halos['npoutA']).astype(np.int64)
        for col in cols:
            toks = cc.project(cobj, col)
            for i, (p, n, _, _) in enumerate(lay):
                want = [sc.token(0, 'A', 'o', p + t) for t in range(n)]
                if toks[st[i]:st[i] + no[i]].tolist() != want:
                    chk.violation(f'lightcone-slice-{col}', f'{desc}: halo {i} slice tokens {toks[st[i]:st[i] + no[i]].tolist()} != {want}', dict(halos=halos))
                    break
    chk.part('lightcone', loads=nlc)
    # ---- extended coverage (spec/SubsampleSpec.tla): the `subsamples=` argument decision table, all 729 dicts, against the real resolver
    try:
        from tlc import run_tlc, read_json
        import warnings
        from abacusnbody.data.compaso_halo_catalog import CompaSOHaloCatalog
        sf = os.path.join(chk.scratch, 'subspec.json')
        run_tlc(chk, 'MC_SubsampleSpec', module_text="---- MODULE MC_SubsampleSpec ----\nEXTENDS SubsampleSpec\nVARIABLE v\nASSUME Consistent /\\ ExplicitRespected\nASSUME Emit(0)\nInit == v = 0\nNext == v' = v\n====\n",
                cfg_text='INIT Init\nNEXT Next\n', env={'CASES_OUT': sf}, timeout=600)
        bad = []
        for cse in read_json(sf):
            d = {k2: (v2 == 'T') for k2, v2 in cse['spec'].items() if v2 != 'absent'}
            try:
                with warnings.catch_warnings():
                    warnings.simplefilter('ignore')
                    ab, cols2 = CompaSOHaloCatalog._setup_load_subsamples(None, dict(d))
                err = False
            except ValueError:
                err, ab, cols2 = True, [], []
            if err != cse['out']['error'] or (not err and (set(ab) != set(cse['out']['AB']) or set(cols2) != set(cse['out']['cols']))):
                bad.append(f'{d} -> error={err} AB={ab} cols={cols2}, spec {cse["out"]}')
        chk.extended('subsamples= argument decision table (729 dicts)', not bad, '; '.join(bad[:3]))
    except Exception as e:  # noqa
        chk.extended('subsamples= argument decision table (729 dicts)', False, f'{type(e).__name__}: {e}')
    chk.add_cases(nload + nlc, nontrivial=nontriv + nlc, traces=nload + nlc)


def replay(chk, path):
    d = json.load(open(path))
    print(d['what'])
    run(chk)
