"""C03 — superslab concatenation and filter_func commute with loading.

spec/CatalogIndex.tla (same module as C01): Kept / TableOf / ExpectedIndex with a row mask; ConcatTheorem; layer A models the
per-file compaction and the post-filter halo_file_offsets (variant "prefilter" is a positive control).
  M1  as C01 (all row masks are part of the exhaustive space)
  M2  TLC computes expected tables for harness-chosen (catalog, mask) pairs and for every single file of a catalog
  spec->code: real loads with filter_func (predicate on id; threshold on N to observe the cleaned N_total-as-N rule;
      keep-nothing / keep-everything), file lists in every order and subset (expected = concatenation of the single-file
      loads), rejected path sets, light-cone catalogs with a filter
"""
import itertools
import json
import os

import numpy as np

import catcommon as cc
import synth_catalog as sc


def run(chk):
    rng = np.random.default_rng(chk.seed)
    chk.cov['rule'] = ('(catalog, row mask) pairs: masks all / none / each single row dropped / random, applied as filter_func; file lists: every ordered '
                       'subset of the superslab files of multi-slab catalogs; non-trivial = load keeping at least one row with particles; distinct by (catalog, mask or file list, options)')
    chk.assumptions += ['synthetic catalogs; filter predicates are built on the halo id (and on N for the cleaned-count rule)',
                        'light-cone x filter is checked for slice contents through the stored index columns (the single lc table is not re-indexed by design)']
    cc.m1(chk, chk.quick)
    ncat = 40 if chk.quick else 300
    pool = [c for c in cc.gen_catalogs(rng, 45 + 4 * ncat) if sum(len(sl) for sl in c) >= 1]
    single = pool[:42][:: 3]                                   # boundary-rich single-slab catalogs
    multi_pool = [c for c in pool[42:] if len(c) >= 2]
    cats = (single + multi_pool)[:ncat]
    # ---------------- filters
    cases = []
    unfiltered = {}
    for ci, cat in enumerate(cats):
        rows = [(s, k) for s, sl in enumerate(cat) for k in range(len(sl))]
        masks = [[[True] * len(sl) for sl in cat], [[False] * len(sl) for sl in cat]]
        for (s, k) in rows[:3]:
            m = [[True] * len(sl) for sl in cat]
            m[s][k] = False
            masks.append(m)
        masks.append([[bool(rng.integers(0, 2)) for _ in sl] for sl in cat])
        # keep-nothing in one slab only
        if len(cat) > 1:
            masks.append([[s != 0] * len(sl) for s, sl in enumerate(cat)])
        for mi, m in enumerate(masks):
            r = ci * 7 + mi
            cases.append(dict(cat=cat, mask=m, ABs=[['A'], ['B'], ['A', 'B']][r % 3], cleaned=bool((r // 3) % 2 == 0), ci=ci, kind='filter'))
    # the cleaned rename: threshold on N
    for ci, cat in enumerate(cats):
        rows = [(s, k) for s, sl in enumerate(cat) for k in range(len(sl))]
        merged = [(s, k) for (s, k) in rows if (cat[s][k]['mA'] + cat[s][k]['mB'] > 0) and not cat[s][k]['away']]
        if not merged:
            continue
        s0, k0 = merged[0]
        thr = sc.uid(s0, k0) + 50 + 1          # N of that halo + 1: N < thr <= N_total
        for cleaned in (True, False):
            ncol = {(s, k): (0 if (cleaned and cat[s][k]['away']) else sc.uid(s, k) + 50 + ((cat[s][k]['mA'] + cat[s][k]['mB']) if cleaned else 0)) for (s, k) in rows}
            m = [[ncol[(s, k)] >= thr for k in range(len(sl))] for s, sl in enumerate(cat)]
            cases.append(dict(cat=cat, mask=m, ABs=['A', 'B'], cleaned=cleaned, ci=ci, kind='nthreshold', thr=thr))
    # ---------------- file lists: per-file single loads from the oracle
    multi = [(ci, cat) for ci, cat in enumerate(cats) if len(cat) >= 2]
    single_cases = {}
    for ci, cat in multi:
        for s in range(len(cat)):
            for ab in 'AB':
                for cleaned in (True, False):
                    c = dict(cat=cat, mask=[[t == s] * len(sl) for t, sl in enumerate(cat)], ABs=[ab], cleaned=cleaned, ci=ci, kind='single')
                    single_cases[(ci, s, ab, cleaned)] = c
    cc.oracle(chk, cases + list(single_cases.values()))
    chk.part('M2_oracle', filter_cases=len(cases), single_file_cases=len(single_cases))
    import gc
    gc.collect()
    gc.freeze()
    root = os.path.join(chk.scratch, 'cat')
    nload = nontriv = 0
    by_cat = {}
    for c in cases:
        by_cat.setdefault(c['ci'], []).append(c)
    for ci, cat in enumerate(cats):
        zd = sc.write_catalog(root, cat)
        files = [os.path.join(zd, 'halo_info', f'halo_info_{s:03d}.asdf') for s in range(len(cat))]
        for k, c in enumerate(by_cat.get(ci, [])):
            r = ci * 5 + k
            keep = [1000 + sc.uid(s, kk) for (s, kk) in cc.kept_rows(c)]
            if c['kind'] == 'filter':
                ff = (lambda h, keep=keep: np.isin(np.asarray(h['id']).astype(np.int64), keep))
            else:
                ff = (lambda h, thr=c['thr']: h['N'] >= thr)
            sub = [('pos', 'vel', 'pid'), ('pos',), ('pid',), ('rv',)][r % 4]
            subs = {ab: True for ab in c['ABs']}
            subs.update({x: True for x in sub})
            cols = [x for x in ('pos', 'vel', 'pid') if x in sub or (x in ('pos', 'vel') and 'rv' in sub)]
            flds = ['id', 'N'] if (r // 5) % 3 else ['id', 'N', 'x_com', 'r50_com']       # rotations use unrelated periods: no two options move in lock-step
            if (r // 2) % 5 == 1:
                # multi-column / cleaning-file columns, and the whole table now and then
                flds = 'all' if r % 4 == 1 else (['id', 'N', 'L2_N', 'sigmar_com'] + (['N_mainprog', 'vcirc_max_L2com_mainprog', 'v_L2com_mainprog', 'N_merge'] if c['cleaned'] else []))
            kw = dict(cleaned=c['cleaned'], subsamples=subs, fields=flds, filter_func=ff)
            path = zd if (r // 7) % 2 else files
            desc = (f'catalog #{ci} {[[(h["nA"], h["gA"], h["mA"], h["nB"], h["mB"], h["away"]) for h in sl] for sl in cat]} cleaned={c["cleaned"]} subsamples={subs} '
                    + (f'filter keeps rows {cc.kept_rows(c)} (by id)' if c['kind'] == 'filter' else f'filter h["N"] >= {c["thr"]} (expected rows {cc.kept_rows(c)})'))
            payload = dict(cat=cat, mask=c['mask'], kind=c['kind'], cleaned=c['cleaned'], ABs=c['ABs'])
            nk = len(keep)
            tag = f'{c["kind"]}-{"cleaned" if c["cleaned"] else "uncleaned"}-{"none" if nk == 0 else ("all" if nk == sum(len(sl) for sl in cat) else "some")}'
            try:
                cobj = cc.load(path, **kw)
            except Exception as e:  # noqa
                chk.violation(f'{tag}-raises-{type(e).__name__}', f'{desc}: {type(e).__name__}: {e}', payload)
                continue
            nload += 1
            nontriv += 1 if c['table'] else 0
            cc.compare(chk, 'C03', c, cobj, cols, tag, desc, payload)
            # filtering commutes with loading: every halo column of the filtered load is that column of the unfiltered load on the kept rows
            # (the subsample index columns are re-based and are judged above)
            fkey = (ci, c['cleaned'], 'all' if flds == 'all' else tuple(flds))
            if fkey not in unfiltered:
                try:
                    unfiltered[fkey] = cc.load(zd, cleaned=c['cleaned'], subsamples=False, fields=flds).halos
                except Exception as e:  # noqa
                    unfiltered[fkey] = None
                    chk.violation(f'unfiltered-raises-{type(e).__name__}', f'catalog #{ci} cleaned={c["cleaned"]} fields={flds} without filter: {type(e).__name__}: {e}', payload)
            U = unfiltered[fkey]
            if U is not None:
                allrows = [(s, kk) for s, sl in enumerate(cat) for kk in range(len(sl))]
                keepidx = [allrows.index(rw) for rw in cc.kept_rows(c)]
                for col in U.colnames:
                    if col.startswith('npstart') or col.startswith('npout'):
                        continue
                    if col not in cobj.halos.colnames:
                        chk.violation(f'{tag}-column-missing', f'{desc} fields={flds}: column {col} is in the unfiltered table but not in the filtered one', payload)
                        continue
                    a, b = np.asarray(cobj.halos[col]), np.asarray(U[col])[keepidx]
                    if a.dtype != b.dtype or a.shape != b.shape or not np.array_equal(a, b, equal_nan=True):
                        chk.violation(f'{tag}-halo-column-{"shape" if a.shape != b.shape else "values"}', f'{desc} fields={flds}: column {col} of the filtered load (dtype {a.dtype}, shape {a.shape}) '
                                      f'is not that column of the unfiltered load on the kept rows (dtype {b.dtype}, shape {b.shape})', payload)
                        break
            if 'x_com' in cobj.halos.colnames and nk:
                want = sc.raw_halo_columns([sc.uid(s, kk) for (s, kk) in cc.kept_rows(c)])['x_com'] * sc.BOX
                if not np.allclose(np.asarray(cobj.halos['x_com']), want, rtol=1e-6):
                    chk.violation(f'{tag}-halo-values', f'{desc}: x_com of the kept rows differs from the unfiltered rows', payload)
            if (ci + k) % 40 == 0:
                chk.sample(dict(catalog=cat, mask=c['mask'], cleaned=c['cleaned'], ABs=c['ABs'], expected_table=c['table'], expected_index=c['index']))
        # ---- file lists
        if len(cat) >= 2:
            orders = [p for n in range(1, len(cat) + 1) for p in itertools.permutations(range(len(cat)), n)]
            if chk.quick:
                orders = orders[:: max(1, len(orders) // 5)]
            for oi, order in enumerate(orders):
                for cleaned in ((True, False) if oi % 2 == 0 else (bool(ci % 2),)):
                    abs_ = [['A', 'B'], ['A'], ['B']][(ci + oi) % 3]
                    table, index, off = [], {}, 0
                    rows = []
                    for ab in abs_:
                        index[ab] = []
                        for s in order:
                            sc_ = single_cases[(ci, s, ab, cleaned)]
                            for (st, n) in sc_['index'][ab]:
                                index[ab].append((off + st, n))
                            table += sc_['table']
                            off += len(sc_['table'])
                    ids = [1000 + sc.uid(s, kk) for s in order for kk in range(len(cat[s]))]
                    c = dict(cat=cat, mask=None, ABs=abs_, cleaned=cleaned, table=table, index=index)
                    c['mask'] = [[True] * len(sl) for sl in cat]
                    subs = {ab: True for ab in abs_}
                    subs.update(pos=True, pid=True)
                    desc = f'catalog #{ci} file list order {list(order)} cleaned={cleaned} subsamples={subs}'
                    payload = dict(cat=cat, order=list(order), cleaned=cleaned, ABs=abs_)
                    tag = f'filelist-{"cleaned" if cleaned else "uncleaned"}-{"subset" if len(order) < len(cat) else ("sorted" if list(order) == sorted(order) else "permuted")}'
                    try:
                        cobj = cc.load([files[s] for s in order], cleaned=cleaned, subsamples=subs, fields=['id', 'N'])
                    except Exception as e:  # noqa
                        chk.violation(f'{tag}-raises-{type(e).__name__}', f'{desc}: {type(e).__name__}: {e}', payload)
                        continue
                    nload += 1
                    nontriv += 1 if table else 0
                    # rows of the concatenation
                    got_ids = np.asarray(cobj.halos['id']).astype(np.int64).tolist()
                    if got_ids != ids:
                        chk.violation(f'{tag}-row-order', f'{desc}: halo ids {got_ids} != concatenation of the single-file loads {ids}', payload)
                        continue
                    cc.compare(chk, 'C03', dict(c, mask=[[s in order] * len(sl) for s, sl in enumerate(cat)]), cobj, ['pos', 'pid'], tag, desc, payload, expect_ids=ids)
    chk.part('loads', loads=nload, nonempty=nontriv)
    # ---------------- rejected path sets
    nrej = 0
    cat2 = [[cc.TYPES[0]], [cc.TYPES[3]]]
    zd = sc.write_catalog(root, cat2)
    zd_b = sc.write_catalog(os.path.join(chk.scratch, 'other'), cat2)
    f0, f1 = [os.path.join(zd, 'halo_info', f'halo_info_{s:03d}.asdf') for s in range(2)]
    g0 = os.path.join(zd_b, 'halo_info', 'halo_info_000.asdf')
    for name, path in (('duplicate', [f0, f1, f0]), ('dir-in-list', [zd, f0]), ('mixed-catalogs', [f0, g0]), ('missing', [f0, f0 + '.nope'])):
        try:
            cc.load(path, cleaned=False, fields=['id'])
            chk.violation(f'pathset-accepted-{name}', f'path set {name} was accepted; it must raise', dict(name=name))
        except (ValueError, FileNotFoundError):
            pass
        except Exception as e:  # noqa
            chk.violation(f'pathset-{name}-{type(e).__name__}', f'path set {name}: unexpected {type(e).__name__}: {e}', dict(name=name))
        nrej += 1
    # ---------------- a directory in which a superslab file is missing (a partial download): the directory load is still the concatenation of
    #                  the per-file loads of the files that are there, each with its OWN particle / cleaning files
    ngap = 0
    cat3 = [[cc.TYPES[0], cc.TYPES[3]], [cc.TYPES[4], cc.TYPES[1]], [cc.TYPES[2], cc.TYPES[0], cc.TYPES[3]]]
    for missing in (0, 1):
        zd3 = sc.write_catalog(root, cat3)
        os.remove(os.path.join(zd3, 'halo_info', f'halo_info_{missing:03d}.asdf'))
        present = [s_ for s_ in range(3) if s_ != missing]
        for cleaned in (True, False):
            for subs_ in (dict(A=True, B=True, pos=True, pid=True), dict(B=True, pos=True)):
                desc = f'directory without halo_info_{missing:03d}.asdf (superslabs {present} present) cleaned={cleaned} subsamples={subs_}'
                payload = dict(cat=cat3, missing=missing, cleaned=cleaned)
                try:
                    dobj = cc.load([zd3, os.path.join(zd3, 'halo_info')][ngap % 2], cleaned=cleaned, subsamples=dict(subs_), fields=['id', 'N'])
                    fobj = cc.load([os.path.join(zd3, 'halo_info', f'halo_info_{s_:03d}.asdf') for s_ in present], cleaned=cleaned, subsamples=dict(subs_), fields=['id', 'N'])
                except Exception as e:  # noqa
                    chk.violation(f'dir-gap-raises-{type(e).__name__}', f'{desc}: {type(e).__name__}: {e}', payload)
                    continue
                ngap += 1
                bad = None
                for col in dobj.halos.colnames:
                    if col not in fobj.halos.colnames or not np.array_equal(np.asarray(dobj.halos[col]), np.asarray(fobj.halos[col])):
                        bad = f'halo column {col}'
                        break
                if bad is None:
                    for col in ('pos', 'pid'):
                        if col in fobj.subsamples.colnames and not np.array_equal(cc.project(dobj, col), cc.project(fobj, col)):
                            bad = f'subsample column {col} (particle tokens {cc.project(dobj, col).tolist()[:6]} vs {cc.project(fobj, col).tolist()[:6]})'
                            break
                want_ids = [1000 + sc.uid(s_, k_) for s_ in present for k_ in range(len(cat3[s_]))]
                if bad is None and np.asarray(dobj.halos['id']).astype(np.int64).tolist() != want_ids:
                    bad = 'halo rows'
                if bad:
                    chk.violation('dir-gap-differs', f'{desc}: the directory load differs from the load of the list of its files in {bad}', payload)
    nload += 2 * ngap
    # ---------------- light cone x filter
    nlc = 0
    for rep in range(6 if chk.quick else 40):
        halos = [dict(nA=int(rng.integers(0, 4)), gA=int(rng.integers(0, 3))) for _ in range(int(rng.integers(1, 6)))]
        d = sc.write_lightcone(root, halos)
        lay, plen, _ = sc.layout([dict(h, hA=0, mA=0) for h in halos], 'A')
        keepk = [k for k in range(len(halos)) if (rep + k) % 3 != 0] if rep % 3 else ([] if rep % 2 else list(range(len(halos))))
        ids = [7000 + sc.uid(0, k) for k in keepk]
        kw = dict(subsamples=dict(A=True, pos=True, pid=True), fields=['N', 'index_halo'],
                  filter_func=(lambda h, ids=ids: np.isin(np.asarray(h['index_halo']).astype(np.int64), ids)))
        desc = f'light-cone catalog {halos} filter keeps halos {keepk}'
        try:
            cobj = cc.load(d, **kw)
        except Exception as e:  # noqa
            chk.violation(f'lightcone-filter-raises-{type(e).__name__}', f'{desc}: {type(e).__name__}: {e}', dict(halos=halos, keep=keepk))
            continue
        nlc += 1
        if np.asarray(cobj.halos['index_halo']).astype(np.int64).tolist() != ids:
            chk.violation('lightcone-filter-rows', f'{desc}: rows {np.asarray(cobj.halos["index_halo"]).tolist()} != {ids}', dict(halos=halos, keep=keepk))
            continue
        st = np.asarray(cobj.halos['npstartA']).astype(np.int64)
        no = np.asarray(cobj.halos['npoutA']).astype(np.int64)
        toks = cc.project(cobj, 'pos')
        for i, k in enumerate(keepk):
            p, n, _, _ = lay[k]
            want = [sc.token(0, 'A', 'o', p + t) for t in range(n)]
            if toks[st[i]:st[i] + no[i]].tolist() != want:
                chk.violation('lightcone-filter-slice', f'{desc}: kept halo {k}: slice tokens {toks[st[i]:st[i] + no[i]].tolist()} != {want}', dict(halos=halos, keep=keepk))
                break
    chk.part('rejected_and_lightcone', rejected_sets=nrej, lightcone_loads=nlc)
    # ---- extended coverage (spec/CatalogPaths.tla): the four documented cleaning-directory layouts resolve to the same catalog
    try:
        import shutil
        from tlc import run_tlc, read_json
        pf = os.path.join(chk.scratch, 'paths.json')
        run_tlc(chk, 'MC_CatalogPaths', module_text="---- MODULE MC_CatalogPaths ----\nEXTENDS CatalogPaths\nVARIABLE v\nASSUME NearestOK\nASSUME Emit(0)\nInit == v = 0\nNext == v' = v\n====\n",
                cfg_text='INIT Init\nNEXT Next\n', env={'CASES_OUT': pf}, timeout=300)
        cat4 = [[cc.TYPES[0], cc.TYPES[3]], [cc.TYPES[1]]]
        ref_tokens = None
        probs = []
        for lay in read_json(pf):
            base = os.path.join(chk.scratch, 'layout_' + lay['layout'])
            shutil.rmtree(base, ignore_errors=True)
            zd0 = sc.write_catalog(os.path.join(base, '_src'), cat4)          # _src/SimA/halos/z0.000 + _src/cleaning/SimA/z0.000/{cleaned_halo_info,cleaned_rvpid}
            comp = lambda parts: os.path.join(base, *[{'Sim': 'SimA', 'z': 'z0.000'}.get(x, x) for x in parts])
            gdir = comp(lay['group'])
            os.makedirs(os.path.dirname(gdir), exist_ok=True)
            shutil.move(zd0, gdir)
            src_clean = os.path.join(base, '_src', 'cleaning', 'SimA', 'z0.000')
            for sub, key in (('cleaned_halo_info', 'info'), ('cleaned_rvpid', 'rvpid')):
                dst = comp(lay[key])
                os.makedirs(dst, exist_ok=True)
                for fn2 in os.listdir(os.path.join(src_clean, sub)):
                    shutil.move(os.path.join(src_clean, sub, fn2), os.path.join(dst, fn2))
            shutil.rmtree(os.path.join(base, '_src'))
            try:
                cobj = cc.load(gdir, cleaned=True, subsamples=dict(A=True, B=True, pos=True), fields=['id', 'N'])
                if [str(p) for p in [cobj.clean_halo_info_dir]] != [comp(lay['info'])]:
                    probs.append(f'{lay["layout"]}: cleaning info dir {cobj.clean_halo_info_dir} != {comp(lay["info"])}')
                toks = cc.project(cobj, 'pos').tolist() + np.asarray(cobj.halos['N']).tolist()
                if ref_tokens is None:
                    ref_tokens = toks
                elif toks != ref_tokens:
                    probs.append(f'{lay["layout"]}: loaded catalog differs from layout L1')
            except Exception as e:  # noqa
                probs.append(f'{lay["layout"]}: {type(e).__name__}: {e}')
        chk.extended('cleaning-directory layouts L1-L4', not probs, '; '.join(probs[:3]))
    except Exception as e:  # noqa
        chk.extended('cleaning-directory layouts L1-L4', False, f'{type(e).__name__}: {e}')
    chk.add_cases(nload + nrej + nlc, nontrivial=nontriv + nlc, traces=nload + nrej + nlc)


def replay(chk, path):
    d = json.load(open(path))
    print(d['what'])
    run(chk)
