"""C20 — pipe_asdf emits count, width and the concatenated raw bytes per field.

spec/PipeFraming.tla (layer D: token stream / error-with-zero-bytes), spec/PipeTrace.tla (layer T).
  M2  TLC enumerates file sets (1-3 files, fields of several shapes/widths incl. a multi-dimensional and an empty column,
      files lacking a field, a path that is not a file) x request sequences (length <= 2/3, incl. repeated and unknown
      fields) with the expected token stream or error
  spec->code: real ASDF files are written for each file set; unpack_to_pipe is run with a recording pipe and the CLI
      (python -m abacusnbody.data.pipe_asdf) through a real OS pipe; the bytes are compared with the concatenation D demands
  M3  the recorded write events of every run are validated by TLC against layer D (PipeTrace.tla)
"""
import json
import os
import struct
import subprocess
import sys
import zlib

import numpy as np

from tlc import run_tlc, read_json

DT = {4: np.float32, 8: np.float64, 2: np.int16, 1: np.uint8}


class RecPipe:
    def __init__(self):
        self.events, self.closed, self.data = [], False, b''

    def isatty(self):
        return False

    def write(self, x):
        b = memoryview(x).tobytes()
        self.events.append(b)
        self.data += b

    def close(self):
        self.closed = True


def make_array(field, n, w, k, rng):
    a = (rng.integers(1, 100, n)).astype(DT[w])
    if field in ('a', 'c') and k % 2 == 1:
        a = a.astype(a.dtype.newbyteorder('>'))          # a column stored big-endian: the payload is its raw bytes as stored, not a native-order copy
    if field == 'b':
        # multi-dimensional column: the count is in elements, not rows — (N,3), and (N,3,2) / (N,3,2,2) where the length allows (e.g. per-halo tensors)
        if n and n % 12 == 0 and k % 3 == 2:
            a = a.reshape(-1, 3, 2, 2)
        elif n and n % 6 == 0 and k % 3 == 1:
            a = a.reshape(-1, 3, 2)
        else:
            a = a.reshape(-1, 3)
    return a


def chk_sum(b):
    return zlib.crc32(b) % 65521


def run(chk):
    import asdf
    from abacusnbody.data.pipe_asdf import unpack_to_pipe
    rng = np.random.default_rng(chk.seed)
    chk.cov['rule'] = ('cases = file sets x request sequences enumerated by TLC; each run through unpack_to_pipe (recording pipe) and a subset through the CLI '
                       'and a real OS pipe; non-trivial = request that must succeed with at least one field; distinct by (file set, existence pattern, request)')
    chk.assumptions += ['every second file is blsc-compressed by rewriting its blocks with the repository\'s compress over the shim codec (asdf 5.4 cannot write blsc blocks itself)',
                        'the recording pipe takes memoryview(x).tobytes() of whatever object is written, as a BufferedWriter would']
    cf = os.path.join(chk.scratch, 'cases.json')
    maxreq = 2 if chk.quick else 3
    text = f"---- MODULE MC_Pipe ----\nEXTENDS PipeFraming\nVARIABLE v\nASSUME CasesTheorem({maxreq})\nASSUME Emit({maxreq})\nInit == v = 0\nNext == v' = v\n====\n"
    run_tlc(chk, 'MC_Pipe', module_text=text, cfg_text='INIT Init\nNEXT Next\n', env={'CASES_OUT': cf}, timeout=900)
    cases = read_json(cf)
    chk.cov['states'] += len(cases)
    chk.cov['transitions'] += len(cases)
    chk.part('M2', cases=len(cases), errors=sum(1 for c in cases if c['out']['error']))
    filecache = {}

    def file_for(spec, k):
        key = json.dumps([sorted(spec), k])
        if key not in filecache:
            arrs = {f: make_array(f, n, w, k + len(filecache), rng) for (f, n, w) in spec}
            # a second tree with the same column names and shapes but other values: the data_key option selects the tree
            arrs2 = {f: (a + 1).astype(a.dtype) for f, a in arrs.items()}
            # file names sort in the REVERSE of the argument order (position k): the stream follows the argument order, never the names
            fn = os.path.join(chk.scratch, f'k{9 - k}_f{len(filecache)}.asdf')
            if len(filecache) % 2:
                # every second file is blsc-compressed (blocks rewritten with the repository's own compressor)
                from blscfile import write_blsc
                write_blsc(fn, {'header': {'k': k}, 'data': arrs, 'subsamples': arrs2}, cbs=16)
            else:
                asdf.AsdfFile({'header': {'k': k}, 'data': arrs, 'subsamples': arrs2}).write_to(fn)
            filecache[key] = (fn, {'data': arrs, 'subsamples': arrs2})
        return filecache[key]

    runs = []
    nrun = nontriv = 0
    for ci, c in enumerate(cases):
        fns, arrs = [], []
        for k, spec in enumerate(c['files']):
            fn, a = file_for(spec, k)
            if not c['exists'][k]:
                fn = os.path.join(chk.scratch, 'does_not_exist.asdf')
            fns.append(fn)
            arrs.append(a)
        exp = c['out']
        dk = 'subsamples' if (ci % 4 == 1 and ci % 3 != 0) else 'data'      # the CLI (every 3rd / 9th case) has no data_key option
        arrs = [a[dk] for a in arrs]
        want = b''
        if not exp['error']:
            for t in exp['tokens']:
                if t[0] == 'count':
                    want += struct.pack('<q', t[1])
                elif t[0] == 'width':
                    want += struct.pack('<i', t[1])
                else:
                    want += arrs[t[1] - 1][t[3]].tobytes()
        tagk = f'{len(c["files"])}files-{"rep" if len(set(c["fields"])) < len(c["fields"]) else "distinct"}'
        pipe = RecPipe()
        try:
            unpack_to_pipe(fns, list(c['fields']), pipe=pipe, verbose=False, **({} if dk == 'data' else dict(data_key=dk)))
            err = ''
        except Exception as e:  # noqa
            err = type(e).__name__
        nrun += 1
        desc = f'files={[[(f, n, w) for f, n, w in s] for s in c["files"]]} exists={c["exists"]} fields={c["fields"]}' + ('' if dk == 'data' else f' data_key={dk}')
        if exp['error']:
            if not err:
                chk.violation(f'no-error-{exp["error"]}', f'{desc}: expected {exp["error"]}, got {len(pipe.data)} bytes', dict(case=c))
            elif pipe.data:
                chk.violation(f'bytes-before-error-{exp["error"]}', f'{desc}: {len(pipe.data)} bytes were written before the {err}', dict(case=c))
        else:
            nontriv += 1
            if err:
                chk.violation(f'raises-{tagk}', f'{desc}: raised {err}', dict(case=c))
            elif pipe.data != want:
                # localise
                pos = next((i for i in range(min(len(want), len(pipe.data))) if want[i] != pipe.data[i]), min(len(want), len(pipe.data)))
                chk.violation(f'stream-{tagk}', f'{desc}: piped bytes differ from count/width/payload framing at byte {pos} (got {len(pipe.data)} bytes, expected {len(want)})', dict(case=c))
        evs = []
        for b in pipe.events:
            if len(b) == 8:
                evs.append([8, struct.unpack('<q', b)[0] if len(evs) % 1 == 0 else 0])
            elif len(b) == 4:
                evs.append([4, struct.unpack('<i', b)[0]])
            else:
                evs.append([len(b), chk_sum(b)])
        # a payload of exactly 8 or 4 bytes would be indistinguishable from a header by length: decode by position
        evs = []
        pos_in_field = 0
        nfiles = len(c['files'])
        for b in pipe.events:
            if pos_in_field == 0 and len(b) == 8:
                evs.append([8, struct.unpack('<q', b)[0]])
            elif pos_in_field == 1 and len(b) == 4:
                evs.append([4, struct.unpack('<i', b)[0]])
            else:
                evs.append([len(b), chk_sum(b)])
            pos_in_field = (pos_in_field + 1) % (2 + nfiles)
        sums = [[[f, chk_sum(a[f].tobytes())] for f in a] for a in arrs]
        runs.append(dict(files=c['files'], exists=c['exists'], fields=c['fields'], error=err if err in ('', 'FileNotFoundError', 'ValueError') else 'other:' + err,
                         events=evs, sums=sums))
        # CLI through a real OS pipe
        if ci % (9 if chk.quick else 3) == 0:
            cmd = [sys.executable, '-m', 'abacusnbody.data.pipe_asdf'] + sum([['-f', f] for f in c['fields']], []) + fns
            p = subprocess.run(cmd, capture_output=True, timeout=120)
            nrun += 1
            if exp['error']:
                if p.returncode == 0 or p.stdout:
                    chk.violation(f'cli-no-error-{exp["error"]}', f'CLI {desc}: exit {p.returncode}, {len(p.stdout)} bytes on stdout; expected an error and no bytes', dict(case=c))
            elif p.returncode != 0 or p.stdout != want:
                chk.violation(f'cli-stream-{tagk}', f'CLI {desc}: exit {p.returncode}, stdout {len(p.stdout)} bytes vs expected {len(want)}; stderr tail {p.stderr[-300:]!r}', dict(case=c))
        if ci % 60 == 0:
            chk.sample(dict(files=c['files'], fields=c['fields'], expected=exp))
    chk.part('spec_to_code', runs=nrun)
    # M3
    tf = os.path.join(chk.scratch, 'runs.json')
    json.dump(runs, open(tf, 'w'))
    vf = os.path.join(chk.scratch, 'verdict.json')
    ttext = "---- MODULE MC_PipeTrace ----\nEXTENDS PipeTrace\nVARIABLE v\nASSUME EmitVerdict(0)\nInit == v = 0\nNext == v' = v\n====\n"
    run_tlc(chk, 'MC_PipeTrace', module_text=ttext, cfg_text='INIT Init\nNEXT Next\n', env={'TRACE_FILE': tf, 'VERDICT_OUT': vf}, timeout=900)
    v = read_json(vf)
    chk.part('M3_traces', runs=v['n'], rejected=len(v['bad']))
    for i in v['bad'][:10]:
        r = runs[i - 1]
        chk.violation(f'trace-rejected-{len(r["files"])}files', f'TLC rejects the recorded write sequence for files={r["files"]} fields={r["fields"]}: error={r["error"]!r} events={r["events"]}', dict(run=r))
    # binding self-test: corrupt one recorded count and require rejection
    good = [r for r in runs if r['events']][:3]
    bad = json.loads(json.dumps(good))
    for r in bad:
        r['events'][0][1] += 1
    json.dump(bad, open(tf, 'w'))
    run_tlc(chk, 'MC_PipeTrace', module_text=ttext, cfg_text='INIT Init\nNEXT Next\n', env={'TRACE_FILE': tf, 'VERDICT_OUT': vf}, record=False, timeout=300)
    if len(read_json(vf)['bad']) != len(bad):
        raise RuntimeError('binding self-test failed: corrupted traces accepted')
    chk.part('binding_selftest', outcome='corrupted traces rejected')
    chk.add_cases(nrun, nontrivial=nontriv, traces=nrun)


def replay(chk, path):
    d = json.load(open(path))
    print(d['what'])
    run(chk)
