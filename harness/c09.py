"""C09 — galaxies follow the HOD threshold rule and inherit their host.

spec/HodSelect.tla (layer D): slice stacking LRG, ELG, QSO; outcome of every (widths, u) on a 1/16 x 1/32 lattice incl. u = 0,
every slice edge (either neighbour acceptable), slice interiors; theorems AtMostOne, LaterNoChange, NestedFirst.
  M2  TLC enumerates all 2112 abstract hosts (widths incl. empty slices x u) with the acceptable outcomes
  spec->code: every abstract host is concretised: the slice widths are obtained from the package's own mean-occupation
      functions at a random host mass / secondary terms (x incompleteness x multiplicity or particle weight x rank decorator),
      the random number is placed with the same order relations to the real slice edges (interior: midpoint, one ulp beyond the
      lower edge, one ulp inside the upper edge; edges: the edge value itself; 0), for centrals (halos) and satellites (particles,
      incl. ELG conformity with the host's central), for every tracer subset; gen_gal_cat is run (box observer and light-cone
      origin, RSD on/off); which hosts carry which tracer, and every output column (host id, mass, position, velocity-bias
      formula, RSD displacement along the line of sight only, wrap), row order (centrals before satellites) and Ncent are compared
"""
import itertools
import json
import os

import numpy as np

import hodcommon as hc
from tlc import run_tlc, read_json


def subsets():
    out = []
    for r in range(1, 4):
        for s in itertools.combinations(hc.ORDER, r):
            out.append(list(s))
    return out


def run(chk):
    rng = np.random.default_rng(chk.seed)
    chk.cov['rule'] = ('abstract hosts = all (slice widths in {0..3}/16 per tracer, u in {0..32}/32) enumerated by TLC, concretised on random host masses / secondary '
                       'terms for centrals and satellites and every tracer subset; non-trivial = host whose random number lies within or on the edge of a slice; '
                       'distinct by (tracer subset, abstract host, placement variant, central/satellite, rsd/observer)')
    chk.assumptions += ['slice widths are computed by calling the package\'s occupation functions with the documented arguments (assembly-bias, conformity and rank terms as in the property)',
                        'a random number exactly equal to a slice edge may select either adjacent tracer; one ulp away it must select the strict one',
                        'the NFW satellite path (nfw=True) is not part of this check']
    cf = os.path.join(chk.scratch, 'cases.json')
    text = ("---- MODULE MC_HodSelect ----\nEXTENDS HodSelect\nVARIABLE v\nASSUME AtMostOne /\\ LaterNoChange /\\ NestedFirst\nASSUME Emit(0)\n"
            "Init == v = 0\nNext == v' = v\n====\n")
    run_tlc(chk, 'MC_HodSelect', module_text=text, cfg_text='INIT Init\nNEXT Next\n', env={'CASES_OUT': cf}, timeout=600)
    abstract = read_json(cf)
    chk.cov['states'] += len(abstract)
    chk.cov['transitions'] += len(abstract)
    chk.cov['exhaustive'] = True
    chk.part('M2', abstract_hosts=len(abstract), theorems='AtMostOne, LaterNoChange, NestedFirst hold')
    nhosts = nontriv = 0
    configs = [(True, None, False), (False, None, True), (True, [-3000.0, 10.0, 20.0], False), (False, [-2000.0, 35.0, -15.0], False)] if chk.quick else \
        [(True, None, False), (False, None, True), (True, [-3000.0, 10.0, 20.0], True), (False, [-3000.0, 10.0, 20.0], False), (True, None, True)]
    for S in subsets():
        tracers = {t: dict(hc.TRACERS[t]) for t in S}
        idx = [hc.ORDER.index(t) for t in S]
        # abstract hosts realisable in this call: non-zero widths exactly on the enabled tracers, or all zero (multiplicity 0)
        mine = [a for a in abstract if {k for k in range(3) if a['W'][k] > 0} == set(idx) or sum(a['W']) == 0]
        for ci, (rsd, origin, ranks) in enumerate(configs):
            # ---------- centrals: one halo per (abstract host, variant)
            spec = [(a, var) for a in mine for var in (0, 1, 2)]
            n = len(spec)
            multis = np.array([0.0 if sum(a['W']) == 0 else 1.0 for a, _ in spec])
            halos = hc.make_halos(rng, n, multis=multis)
            w = hc.cent_widths(halos['hmass'], halos['hmultis'], halos['hdeltac'], halos['hfenv'], halos['hshear'], tracers)
            m = hc.markers(w)
            allowed = []
            usable = np.ones(n, dtype=bool)
            for i, (a, var) in enumerate(spec):
                u = hc.place_u(m[i], a['W'], a['u'], var)
                if u is None or not (0.0 <= u < 1.0):
                    usable[i] = False
                    u = 0.999999
                    # recompute the strict outcome for this fallback value
                    allowed.append(None)
                else:
                    allowed.append(set(a['out']))
                halos['hrandoms'][i] = u
            # fallback hosts: strict outcome from the real markers (they are still part of the table, so judge them too)
            for i in range(n):
                if allowed[i] is None:
                    u = halos['hrandoms'][i]
                    k = next((k for k in (1, 2, 3) if m[i][k - 1] < u <= m[i][k]), 0)
                    allowed[i] = {k}
            # ---------- satellites: particles on carrier halos with unambiguous centrals
            strict_host = [i for i in range(n) if len(allowed[i]) == 1]
            pspec = [(a, var) for a in mine for var in (0, 1)]
            npart = len(pspec)
            hosts = np.array([strict_host[j % len(strict_host)] for j in range(npart)], dtype=np.int64)
            parts = hc.make_particles(rng, halos, npart, hosts=hosts)
            parts['pweights'] = np.array([0.0 if sum(a['W']) == 0 else float(rng.choice([0.5, 1.0, 2.0])) for a, _ in pspec])
            keep_host = np.array([next(iter(allowed[h])) for h in hosts], dtype=np.int64)
            ws = hc.sat_widths(parts['phmass'], parts['pweights'], parts['pdeltac'], parts['pfenv'], parts['pshear'], parts, ranks, keep_host, tracers)
            ms = hc.markers(ws)
            pallowed = []
            for j, (a, var) in enumerate(pspec):
                # a particle whose enabled-tracer width vanishes (mass below the satellite threshold) has other order relations: judge it by its real edges
                real_zero = {k for k in range(3) if ws[j][k] == 0}
                abs_zero = {k for k in range(3) if a['W'][k] == 0}
                u = hc.place_u(ms[j], a['W'], a['u'], var) if real_zero == abs_zero else None
                if u is None or not (0.0 <= u < 1.0):
                    u = float(rng.random())
                    k = next((k for k in (1, 2, 3) if ms[j][k - 1] < u <= ms[j][k]), 0)
                    on_edge = any(u == ms[j][k] for k in range(4))
                    pallowed.append({k} if not on_edge else {0, 1, 2, 3})
                else:
                    pallowed.append(set(a['out']))
                parts['prandoms'][j] = u
            # ---------- run
            desc = f'tracers={S} rsd={rsd} origin={origin} enable_ranks={ranks}'
            try:
                out = hc.run_hod(halos, parts, tracers, Nthread=1 + (ci + len(S)) % 4, rsd=rsd, origin=None if origin is None else np.array(origin), enable_ranks=ranks)
            except Exception as e:  # noqa
                chk.violation(f'raises-{type(e).__name__}', f'{desc}: {type(e).__name__}: {e}', dict(S=S))
                continue
            # light-cone RSD moves all three coordinates: satellites are then identified through the same call without RSD
            # (the selection does not depend on rsd: only the line-of-sight coordinate may move)
            lc_rsd = bool(rsd and origin is not None)
            out_sel = out
            if lc_rsd:
                try:
                    out_sel = hc.run_hod(halos, parts, tracers, Nthread=1 + (ci + len(S)) % 4, rsd=False, origin=np.array(origin), enable_ranks=ranks)
                except Exception as e:  # noqa
                    chk.violation(f'raises-{type(e).__name__}', f'{desc} (rsd off): {type(e).__name__}: {e}', dict(S=S))
                    continue
            nhosts += n + npart
            nontriv += sum(1 for al in allowed if al != {0}) + sum(1 for al in pallowed if al != {0})
            # ---------- judge selection
            sel_c = np.zeros(n, dtype=np.int64)
            sel_s = np.zeros(npart, dtype=np.int64)
            ok_struct = True
            for t in S:
                k = hc.ORDER.index(t) + 1
                g = out[t]
                nc = g['Ncent']
                gid = np.asarray(g['id'])
                cidx = gid[:nc] - 100000
                if len(set(cidx.tolist())) != len(cidx) or np.any(np.diff(cidx) <= 0):
                    chk.violation(f'central-order-{t}', f'{desc}: central rows of {t} are not the selected halos in index order (or a halo appears twice)', dict(S=S))
                    ok_struct = False
                    continue
                if np.any(sel_c[cidx] != 0):
                    chk.violation('two-galaxies-on-one-halo', f'{desc}: a halo hosts centrals of two tracers', dict(S=S))
                sel_c[cidx] = k
                # satellites: matched by particle position x (unique), in particle order
                sx = np.asarray(out_sel[t]['x'])[out_sel[t]['Ncent']:]
                if lc_rsd and (out_sel[t]['Ncent'] != nc or len(sx) != len(g['x']) - nc):
                    chk.violation(f'rsd-changes-selection-{t}', f'{desc}: {t} has {nc} centrals / {len(g["x"]) - nc} satellites with RSD but {out_sel[t]["Ncent"]} / {len(sx)} without', dict(S=S))
                    ok_struct = False
                    continue
                sel_rows = None
                if True:
                    order = {float(x): j for j, x in enumerate(parts['ppos'][:, 0])}
                    try:
                        sidx = np.array([order[float(x)] for x in sx], dtype=np.int64)
                    except KeyError:
                        chk.violation(f'satellite-position-{t}', f'{desc}: a satellite x coordinate is not the x of any particle (RSD must move the line of sight only)', dict(S=S))
                        ok_struct = False
                        continue
                    if np.any(np.diff(sidx) <= 0):
                        chk.violation(f'satellite-order-{t}', f'{desc}: satellite rows of {t} are not in particle order', dict(S=S))
                        ok_struct = False
                    if np.any(sel_s[sidx] != 0):
                        chk.violation('two-galaxies-on-one-particle', f'{desc}: a particle hosts satellites of two tracers', dict(S=S))
                    sel_s[sidx] = k
            if not ok_struct:
                continue
            for i in range(n):
                if int(sel_c[i]) not in allowed[i]:
                    a, var = spec[i]
                    edge = len(allowed[i]) > 1
                    chk.violation(f'central-selection-{"edge" if edge else "strict"}-want{sorted(allowed[i])}-got{int(sel_c[i])}',
                                  f'{desc}: halo with slice edges {m[i][1:].tolist()} and random number {halos["hrandoms"][i]!r} carries tracer #{int(sel_c[i])} '
                                  f'(0 = none, 1 = LRG, 2 = ELG, 3 = QSO); acceptable {sorted(allowed[i])} (abstract host W={a["W"]}/16 u={a["u"]}/32, placement {var})',
                                  dict(S=S, W=a['W'], u=a['u'], var=var))
                    break
            if True:
                for j in range(npart):
                    if int(sel_s[j]) not in pallowed[j]:
                        a, var = pspec[j]
                        chk.violation(f'satellite-selection-want{sorted(pallowed[j])}-got{int(sel_s[j])}-hostcentral{int(keep_host[j])}',
                                      f'{desc}: particle with slice edges {ms[j][1:].tolist()} (host central tracer #{int(keep_host[j])}) and random number {parts["prandoms"][j]!r} '
                                      f'carries tracer #{int(sel_s[j])}; acceptable {sorted(pallowed[j])}', dict(S=S, W=a['W'], u=a['u'], var=var))
                        break
            # ---------- judge fields (on the galaxies actually generated: inheritance formulas)
            for t in S:
                k = hc.ORDER.index(t) + 1
                g = out[t]
                nc = g['Ncent']
                p = tracers[t]
                cidx = np.asarray(g['id'])[:nc] - 100000
                epos, evel = hc.expected_fields(halos['hpos'][cidx], halos['hvel'][cidx], halos['hveldev'][cidx], p['alpha_c'], rsd, origin)
                got_p = np.stack([g['x'][:nc], g['y'][:nc], g['z'][:nc]], axis=1)
                got_v = np.stack([g['vx'][:nc], g['vy'][:nc], g['vz'][:nc]], axis=1)
                if nc and not (np.allclose(got_p, epos, rtol=1e-11, atol=1e-9) and np.allclose(got_v, evel, rtol=1e-11, atol=1e-9)):
                    which = 'position' if not np.allclose(got_p, epos, rtol=1e-11, atol=1e-9) else 'velocity'
                    chk.violation(f'central-fields-{which}-{"rsd" if rsd else "norsd"}-{"lc" if origin is not None else "box"}',
                                  f'{desc}: {t} central {which} differs from host position / v_h + alpha_c*dev / RSD along the line of sight', dict(S=S, tracer=t))
                if nc and not np.array_equal(np.asarray(g['mass'])[:nc], halos['hmass'][cidx]):
                    chk.violation('central-mass', f'{desc}: {t} central mass is not the host halo mass', dict(S=S, tracer=t))
                if True:
                    sidx = np.nonzero(sel_s == k)[0]
                    ns = len(g['x']) - nc
                    if ns != len(sidx):
                        continue
                    epos, evel = hc.expected_fields(parts['ppos'][sidx], parts['phvel'][sidx], parts['pvel'][sidx] - parts['phvel'][sidx], p['alpha_s'], rsd, origin)
                    got_p = np.stack([g['x'][nc:], g['y'][nc:], g['z'][nc:]], axis=1)
                    got_v = np.stack([g['vx'][nc:], g['vy'][nc:], g['vz'][nc:]], axis=1)
                    if ns and not (np.allclose(got_p, epos, rtol=1e-11, atol=1e-9) and np.allclose(got_v, evel, rtol=1e-11, atol=1e-9)):
                        which = 'position' if not np.allclose(got_p, epos, rtol=1e-11, atol=1e-9) else 'velocity'
                        chk.violation(f'satellite-fields-{which}-{"rsd" if rsd else "norsd"}' + ('-lc' if origin is not None else ''), f'{desc}: {t} satellite {which} differs from particle position / v_h + alpha_s*(v_p - v_h) / RSD', dict(S=S, tracer=t))
                    if ns and not (np.array_equal(np.asarray(g['id'])[nc:], parts['phid'][sidx]) and np.array_equal(np.asarray(g['mass'])[nc:], parts['phmass'][sidx])):
                        chk.violation('satellite-host', f'{desc}: {t} satellites do not carry their host halo id / mass', dict(S=S, tracer=t))
                if rsd and origin is None and len(g['z']):
                    z = np.asarray(g['z'])
                    if np.any(z < -hc.LBOX / 2) or np.any(z >= hc.LBOX / 2):
                        chk.violation('rsd-wrap', f'{desc}: {t} redshift-space z not wrapped into [-L/2, L/2)', dict(S=S, tracer=t))
            # the assembly of centrals and satellites with very few satellites and many threads: every row must still carry its host
            if ci == 0:
                few = {k2: v2[:3].copy() for k2, v2 in parts.items()}
                o16 = hc.run_hod(halos, few, tracers, Nthread=16, rsd=False, enable_ranks=ranks)
                o1 = hc.run_hod(halos, few, tracers, Nthread=1, rsd=False, enable_ranks=ranks)
                for t in S:
                    nc = o1[t]['Ncent']
                    for col in ('x', 'vz', 'mass', 'id'):
                        a1, a16 = np.asarray(o1[t][col]), np.asarray(o16[t][col])
                        if o16[t]['Ncent'] != nc or a1.shape != a16.shape or not np.array_equal(a1, a16):
                            chk.violation(f'assembly-few-satellites-{col}', f'{desc}: with 3 particles and 16 threads the {t} rows after the centrals do not carry their host ({col} differs from the single-thread catalogue)', dict(S=S, tracer=t))
                            break
                    sidx_ids = np.asarray(o16[t]['id'])[nc:]
                    if len(sidx_ids) and not np.all(np.isin(sidx_ids, few['phid'])):
                        chk.violation('assembly-few-satellites-hostid', f'{desc}: satellite rows carry ids that are not host ids of any particle', dict(S=S, tracer=t))
            if ci == 0 and len(S) == 3:
                i0 = next(i for i in range(n) if len(allowed[i]) > 1)
                chk.sample(dict(tracers=S, halo_edges=m[i0][1:].tolist(), u=float(halos['hrandoms'][i0]), acceptable=sorted(allowed[i0]), got=int(sel_c[i0])))
                chk.sample(dict(abstract=spec[7][0], placement=spec[7][1]))
    chk.part('hosts', hosts=nhosts, within_or_on_a_slice=nontriv)
    chk.add_cases(nhosts, nontrivial=nontriv, traces=nhosts)
    # ---- redshift-space coordinates that land EXACTLY on the box faces: z' = +L/2 wraps to -L/2 (the interval is half open), z' = -L/2 stays
    try:
        rng3 = np.random.default_rng(chk.seed + 4)
        nE = 60
        HE = hc.make_halos(rng3, nE)
        HE['hmass'][:] = 10 ** 14.4
        HE['hrandoms'][:] = rng3.random(nE) * 0.01                 # every halo hosts an LRG central
        HE['hveldev'][:] = 0.0
        kk = rng3.integers(1, 9, nE).astype(np.float64)
        sign = np.where(np.arange(nE) % 3 == 0, -1.0, 1.0)
        HE['hvel'][:, 2] = sign * kk * hc.VELZ2KMS                  # v_z / velz2kms = +-k exactly (velz2kms = 75)
        HE['hpos'][:, 2] = sign * (hc.LBOX / 2 - kk)                # z + v_z / velz2kms = +-L/2 exactly
        HE['hpos'][::7, 2] += 0.25                                  # and a few just inside / beyond
        PE = hc.make_particles(rng3, HE, 0)
        oE = hc.run_hod(HE, PE, {'LRG': dict(hc.LRG, ic=1.0)}, Nthread=3, rsd=True)
        g = oE['LRG']
        nc = int(g['Ncent'])
        zz = np.asarray(g['z'])[:nc]
        cidx = np.asarray(g['id'])[:nc] - 100000
        epos, evel = hc.expected_fields(HE['hpos'][cidx], HE['hvel'][cidx], HE['hveldev'][cidx], hc.LRG['alpha_c'], True, None)
        if nc < nE // 2:
            chk.note('C09 box-face cases: fewer centrals than expected were generated')
        if np.any(zz < -hc.LBOX / 2) or np.any(zz >= hc.LBOX / 2):
            j = int(np.argmax((zz < -hc.LBOX / 2) | (zz >= hc.LBOX / 2)))
            chk.violation('rsd-wrap-box-face', f'RSD with a box observer: a central whose redshift-space z is exactly {float(HE["hpos"][cidx[j], 2] + HE["hvel"][cidx[j], 2] / hc.VELZ2KMS)!r} '
                          f'comes out at z = {float(zz[j])!r}, outside [-L/2, L/2) = [{-hc.LBOX / 2}, {hc.LBOX / 2})', dict(kind='box-face'))
        elif not np.allclose(zz, epos[:, 2], rtol=0, atol=1e-9):
            chk.violation('rsd-wrap-box-face-value', 'RSD with a box observer: centrals landing on the box faces differ from the wrapped formula', dict(kind='box-face'))
        chk.add_cases(nE, traces=nE)
    except Exception as e:  # noqa
        chk.violation(f'box-face-raises-{type(e).__name__}', f'box-face RSD cases: {type(e).__name__}: {e}', {})
    # ---- the catalogue is a function of the parameters of THIS call: a parameter dict reused for a second call with changed values
    #      (optional keys left to their defaults) gives what a fresh dict with the same values gives, and is not modified
    try:
        import copy
        rng2 = np.random.default_rng(chk.seed + 3)
        H2 = hc.make_halos(rng2, 400)
        P2 = hc.make_particles(rng2, H2, 3000)
        opt = ('logM1_EE', 'alpha_EE', 'logM1_EL', 'alpha_EL', 'Acent', 'Asat', 'Bcent', 'Bsat', 'Ccent', 'Csat', 'ic')
        nseq = 0
        noted = False
        for S2 in (['LRG', 'ELG'], ['ELG'], ['LRG', 'ELG', 'QSO']):
            intent = {t: {k: v for k, v in hc.TRACERS[t].items() if k not in opt} for t in S2}
            D = copy.deepcopy(intent)
            for step, change in enumerate((None, dict(ELG=dict(logM1=0.4, alpha=-0.2)), dict(ELG=dict(logM_cut=0.3)), dict(LRG=dict(logM1=-0.3)) if 'LRG' in S2 else dict(ELG=dict(kappa=0.5)))):
                if change:
                    for t, ch in change.items():
                        for k, dv in ch.items():
                            intent[t][k] += dv
                            D[t][k] += dv
                want_d = copy.deepcopy(intent)
                o1 = hc.run_hod(H2, P2, D, Nthread=3, rsd=True)
                o2 = hc.run_hod(H2, P2, copy.deepcopy(intent), Nthread=3, rsd=True)
                nseq += 1
                if D != want_d and not noted:
                    changed = {t: {k: D[t].get(k) for k in set(D[t]) ^ set(want_d[t]) | {k for k in want_d[t] if D[t].get(k) != want_d[t][k]}} for t in S2 if D[t] != want_d[t]}
                    chk.note(f'C09: the caller\'s parameter dict is modified by gen_gal_cat ({changed}); judged by its effect on the next call')
                    noted = True
                for t in S2:
                    same = o1[t]['Ncent'] == o2[t]['Ncent'] and all(np.array_equal(np.asarray(o1[t][k]), np.asarray(o2[t][k])) for k in ('x', 'y', 'z', 'vx', 'vy', 'vz', 'mass', 'id'))
                    if not same:
                        chk.violation(f'second-call-differs-{t}', f'tracers={S2} call {step + 1} on a reused parameter dict (changes so far applied in place): the {t} catalogue ({len(o1[t]["x"])} galaxies) differs from '
                                      f'the one a fresh dict with the same values gives ({len(o2[t]["x"])} galaxies) — the occupation widths are not those of this call\'s parameters', dict(S=S2, tracer=t))
        chk.part('reused_parameter_dict', calls=2 * nseq)
        chk.add_cases(2 * nseq, traces=2 * nseq)
    except Exception as e:  # noqa
        chk.violation(f'reused-dict-raises-{type(e).__name__}', f'reused parameter dict sequence: {type(e).__name__}: {e}', {})
    # ---- extended coverage (beyond C09): satellites on an NFW profile — spec/NfwSats.tla
    try:
        import nfwsats
        nfwsats.run(chk)
    except Exception as e:  # noqa
        chk.extended('NFW satellites: host assignment, thread blocks and placement on the profile', False, f'not evaluated: {type(e).__name__}: {str(e)[:300]}')


def replay(chk, path):
    d = json.load(open(path))
    print(d['what'])
    run(chk)
