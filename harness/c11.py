"""C11 — compiled kernels never access memory outside their arrays.

spec/MemSafety.tla (+ the InBounds invariants of Cumsum, Partition, TwoPass, CatalogIndex, MassAssign, ModeBinning).
  M1  TLC: index expressions of the pass loops of _tsc_parallel, linear_interp (with the quotient rounding up at a knot),
      getPointsOnSphere, for all small sizes; the owning modules' InBounds invariants at boundary constants; the original
      expressions are the positive controls (TLC must flag them)
  binding: every boundary instantiation of every index-carrying kernel (c11_cases.py) is executed on the real code
      (a) compiled with NUMBA_BOUNDSCHECK=1 for serial kernels, (b) interpreted (NUMBA_DISABLE_JIT=1: numpy raises on any index
      outside [-len, len)) for parallel=True kernels, (c) compiled as shipped inside guarded arenas for kernels writing into
      caller-supplied arrays.  A fault in any mode is a violation.
"""
import json
import os
import subprocess
import sys

import numpy as np

from tlc import run_tlc


def child(mode, scratch, thorough=False, seed=0):
    import traceback
    import c11_cases
    res = []
    for name, kernel, thunk in c11_cases.cases(mode, scratch, thorough, seed):
        try:
            thunk()
            res.append(dict(name=name, kernel=kernel, fault=None))
        except (IndexError, SystemError) as e:
            tb = traceback.extract_tb(e.__traceback__)
            where = next((f'{os.path.basename(f.filename)}:{f.lineno}' for f in reversed(tb) if '/repo/' in f.filename), '')
            res.append(dict(name=name, kernel=kernel, fault=f'{type(e).__name__}: {e} [{where}]'))
        except Exception as e:  # noqa
            tb = traceback.extract_tb(e.__traceback__)
            where = next((f'{os.path.basename(f.filename)}:{f.lineno}' for f in reversed(tb) if '/repo/' in f.filename), '')
            res.append(dict(name=name, kernel=kernel, fault=None, other=f'{type(e).__name__}: {str(e)[:300]} [{where}]'))
    print('C11RESULT ' + json.dumps(res))


def arena_cases(chk):
    """compiled as shipped: kernels writing into caller-supplied arrays run inside arenas with guard cells"""
    from abacusnbody.analysis import tsc, cic
    from abacusnbody.data.bitpacked import unpack_rvint
    from abacusnbody.data.pack9 import unpack_pack9
    n = 0
    G = 64

    def grid_in_arena(shape, dtype):
        size = int(np.prod(shape))
        a = np.full(size + 2 * G, 7.25, dtype=dtype)
        g = a[G:G + size].reshape(shape)
        g[...] = 0
        return a, g, size
    for shape, box in (((3, 3, 3), 6.0), ((2, 2, 2), 4.0), ((4, 3, 5), 12.0), ((4, 4, 1), 8.0)):
        vals = [0.0, float(np.nextafter(np.float32(box), np.float32(0))), box / shape[0] / 2, box * 0.75, box]
        pos = np.array([[a, b, c] for a in vals for b in vals for c in vals], dtype=np.float32)
        for kind in ('tsc', 'cic'):
            if kind == 'tsc' and shape[2] == 1:
                continue
            arena, g, size = grid_in_arena(shape, np.float32)
            (tsc._tsc_scatter(pos, g, box) if kind == 'tsc' else cic.cic_serial(pos, g, box))
            n += 1
            if not (np.all(arena[:G] == 7.25) and np.all(arena[G + size:] == 7.25)):
                chk.violation(f'arena-{kind}-grid-guard', f'{kind} deposit on grid {shape} with positions on the domain boundaries wrote outside the grid array', dict(shape=list(shape)))
    # supplied outputs of the decoders
    for N in (0, 1, 5):
        out = np.full((N + 2, 3), 9.5, dtype=np.float32)
        unpack_rvint(np.arange(3 * N, dtype=np.int32), 10.0, posout=out[1:N + 1], velout=False)
        n += 1
        if not (np.all(out[0] == 9.5) and np.all(out[N + 1] == 9.5)):
            chk.violation('arena-unpack_rvint-guard', f'unpack_rvint wrote outside the supplied {N}-row output', dict(N=N))
    return n


def run(chk):
    chk.cov['rule'] = ('boundary instantiations (empty arrays, single elements, zero-particle halos, one-cell-thick grid, positions on domain boundaries, wavenumbers beyond '
                       'the last edge, lookups one ulp inside the last knot, fewer items than threads) of every index-carrying kernel, each run with bounds checking '
                       '(compiled NUMBA_BOUNDSCHECK=1 or interpreted) and in guarded arenas; non-trivial = instantiation that reaches an indexing statement; distinct by case name')
    chk.assumptions += ['interpreted execution (NUMBA_DISABLE_JIT=1) stands in for the compiled parallel kernels: same source, numpy bounds semantics ([-len, len))',
                        'documented domains: positions in [0, BoxSize] (BoxSize itself only with zero offset), sub-cell offsets up to half a cell, mu edges spanning [0,1], '
                        'NFW_draw at least as long as the number of satellites; TSC on a 3-D array with a one-cell axis is outside the domain',
                        'reads outside an array that do not fault in the compiled build are only detected in the checked modes']
    text = ("---- MODULE MC_MemSafety ----\nEXTENDS MemSafety\nVARIABLE v\nASSUME AllOK(%d, %d, %d)\nInit == v = 0\nNext == v' = v\n====\n" % ((12, 8, 8) if chk.quick else (40, 16, 20)))
    run_tlc(chk, 'MC_MemSafety', module_text=text, cfg_text='CONSTANTS\n  Variant = "fixed"\nINIT Init\nNEXT Next\n', timeout=900)
    chk.cov['states'] += 12 + 8 * 3 + 81
    chk.cov['transitions'] += 12 + 8 * 3 + 81
    ctl = ("---- MODULE MC_MemSafetyCtl ----\nEXTENDS MemSafety\nVARIABLE v\nASSUME LET f == Faults(9, 6, 6) IN f.passloop # {} /\\ f.interp # {} /\\ f.sphere # {}\n"
           "Init == v = 0\nNext == v' = v\n====\n")
    run_tlc(chk, 'MC_MemSafetyCtl', module_text=ctl, cfg_text='CONSTANTS\n  Variant = "pinned"\nINIT Init\nNEXT Next\n', record=False, timeout=300)
    chk.part('M1_memsafety', theorem='PassLoopOK, PassCoverOK, InterpOK, SphereOK hold for all small sizes; original expressions flagged (control)')
    # the owning modules' InBounds invariants at boundary constants
    r = run_tlc(chk, 'MC_Cumsum', cfg_text='CONSTANTS\n  MaxN = 2\n  Slack = 1\n  GuardEmpty = TRUE\n  Vals <- MCVals\n  Offs <- MCOffs\nSPECIFICATION Spec\nINVARIANT InBounds\n', timeout=600)
    chk.part('M1_Cumsum_InBounds', states=r['distinct'])
    r = run_tlc(chk, 'Partition', cfg_text='CONSTANTS\n  MaxLen = 3\n  NPART = 2\n  RR = 1\n  T = 3\n  Mut = "none"\nSPECIFICATION Spec\nINVARIANT InBounds\nINVARIANT NoDoubleWrite\n', timeout=600)
    chk.part('M1_Partition_InBounds', states=r['distinct'])
    r = run_tlc(chk, 'TwoPass', cfg_text='CONSTANTS\n  MaxH = 3\n  T = 4\n  K = 2\n  Mut = "none"\nSPECIFICATION Spec\nINVARIANT InBounds\nINVARIANT BlocksPartition\n', timeout=600)
    chk.part('M1_TwoPass_InBounds', states=r['distinct'])
    text = ("---- MODULE MC_C11Cat ----\nEXTENDS CatalogIndex\nVARIABLE v\nT4 == { HaloTypes[i] : i \\in {1, 2, 3, 6} }\nASSUME AllOK(T4, 1)\nInit == v = 0\nNext == v' = v\n====\n")
    run_tlc(chk, 'MC_C11Cat', module_text=text, cfg_text='CONSTANTS\n  Mut = "none"\nINIT Init\nNEXT Next\n', timeout=900)
    text = ("---- MODULE MC_C11Mass ----\nEXTENDS MassAssign\nVARIABLE v\nASSUME OutOfBounds(\"TSC\", {2, 3, 4}, {-2, 0, 2}) \\subseteq {<<2, 2, 8>>} /\\ OutOfBounds(\"CIC\", {2, 3, 4}, {0}) = {}\n"
            "Init == v = 0\nNext == v' = v\n====\n")
    run_tlc(chk, 'MC_C11Mass', module_text=text, cfg_text='CONSTANTS\n  Q = 4\nINIT Init\nNEXT Next\n', timeout=900)
    text = ("---- MODULE MC_C11Bin ----\nEXTENDS ModeBinning\nVARIABLE v\n"
            "ASSUME \\A n \\in 2..5 : ~ACountKmu(n, <<1, 3, 20>>, << <<0, 1>>, <<1, 2>>, <<1, 1>> >>, \"fixed\").oob /\\ ~ACountKppi(n, <<1, 3, 20>>, <<0, 1, 3>>, \"fixed\").oob\n"
            "ASSUME \\E n \\in 2..5 : ACountKppi(n, <<1, 3, 20>>, <<0, 1, 3>>, \"pinned\").oob\nInit == v = 0\nNext == v' = v\n====\n")
    run_tlc(chk, 'MC_C11Bin', module_text=text, cfg_text='INIT Init\nNEXT Next\n', timeout=900)
    chk.part('M1_owner_modules', modules='CatalogIndex (zipper), MassAssign, ModeBinning: InBounds at boundary constants')
    # ---- binding: bounds-checked executions
    results = []
    for mode, env in (('bc', {'NUMBA_BOUNDSCHECK': '1'}), ('nojit', {'NUMBA_DISABLE_JIT': '1'})):
        e = dict(os.environ, **env)
        p = subprocess.run([sys.executable, '-c', f'import c11; c11.child({mode!r}, {chk.scratch!r}, {not chk.quick!r}, {chk.seed!r})'], env=e, capture_output=True, text=True, timeout=3000)
        line = [l for l in p.stdout.splitlines() if l.startswith('C11RESULT ')]
        if not line:
            raise RuntimeError(f'C11 child ({mode}) failed:\n' + p.stdout[-1500:] + p.stderr[-3000:])
        res = json.loads(line[0][10:])
        for r in res:
            r['mode'] = mode
        results += res
        chk.part(f'mode_{mode}', cases=len(res), faults=sum(1 for r in res if r['fault']), other_errors=sum(1 for r in res if r.get('other')))
    kernels = sorted({r['kernel'] for r in results})
    for r in results:
        if r['fault']:
            chk.violation(f'oob-{r["kernel"].split("/")[0]}-{r["name"].split("-")[0]}-{r["mode"]}' + ('-' + '-'.join(r['name'].split('-')[1:3]) if True else ''),
                          f'{r["name"]} ({r["mode"]}): {r["fault"]}', r)
        elif r.get('other'):
            chk.note(f'C11 case {r["name"]} ({r["mode"]}) raised a non-bounds error: {r["other"]}')
    narena = arena_cases(chk)
    chk.part('arenas', cases=narena)
    chk.cov['kernels_exercised'] = kernels
    chk.sample(dict(case=results[0]['name'], kernel=results[0]['kernel'], mode=results[0]['mode']))
    chk.sample(dict(case=results[-1]['name'], kernel=results[-1]['kernel'], mode=results[-1]['mode']))
    chk.add_cases(len(results) + narena, nontrivial=len(results) + narena, traces=len(results) + narena)


def replay(chk, path):
    d = json.load(open(path))
    print(d['what'])
    run(chk)
