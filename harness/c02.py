"""C02 — a halo column's values do not depend on what else was requested.

spec/HaloFields.tla: the field resolver as coded (layer A: list normalisation, dependency closure, reversed de-duplication,
temporary columns and their slot types, automatic subsample index columns) against layer D (every requested column canonical,
no request fails).
  M1  TLC: every duplicate-free request sequence of length <= 2 (quick) / 3 (thorough) over a 19-column universe (one per dtype /
      shape / derivation class) x cleaned on/off x subsamples none / A / A+B: RequestOK and OrderOK; the two original defects
      (temporary column typed by a stale variable; index columns added only for cleaned catalogs) are positive controls
  M2  TLC emits every request with the resolver's load order and temporary columns
  spec->code: every request is loaded from a fixed synthetic catalog; each requested column must be bit-identical to the
      same column of the fields='all' load (and of the default-field load), no load may fail; the loader's own
      dependency_info is compared with the model (drift only)
"""
import json
import os

import numpy as np

import catcommon as cc
import synth_catalog as sc
from tlc import run_tlc, read_json


def run(chk):
    rng = np.random.default_rng(chk.seed)
    chk.cov['rule'] = ('requests = all duplicate-free sequences of <= 2 (quick) / 3 (thorough) columns over a 19-column universe x cleaned on/off x subsamples '
                       'none / A / A+B, enumerated by TLC; non-trivial = request with at least two columns or with subsamples; distinct by (sequence, cleaned, subsamples)')
    chk.assumptions += ['canonical value of a column = its value in the fields=all load of the same catalog (units of that load are verified by C05)',
                        'passthrough mode is not part of this check']
    n = 2 if chk.quick else 3
    cf = os.path.join(chk.scratch, 'cases.json')
    text = (f"---- MODULE MC_HaloFields ----\nEXTENDS HaloFields\nVARIABLE v\nASSUME AllOK({n})\nASSUME Emit({n})\nInit == v = 0\nNext == v' = v\n====\n")
    run_tlc(chk, 'MC_HaloFields', module_text=text, cfg_text='CONSTANTS\n  Variant = "fixed"\nINIT Init\nNEXT Next\n', env={'CASES_OUT': cf}, timeout=3000)
    cases = read_json(cf)
    chk.cov['states'] += len(cases)
    chk.cov['transitions'] += len(cases)
    chk.part('M1_M2', requests=len(cases), theorem='RequestOK and OrderOK hold for every request')
    ctl = ("---- MODULE MC_HaloFieldsCtl ----\nEXTENDS HaloFields\nVARIABLE v\nASSUME BadRequests(2) # {}\nInit == v = 0\nNext == v' = v\n====\n")
    for var in ('staledtype', 'indexonlycleaned'):
        run_tlc(chk, 'MC_HaloFieldsCtl', module_text=ctl, cfg_text=f'CONSTANTS\n  Variant = "{var}"\nINIT Init\nNEXT Next\n', record=False, timeout=600)
        chk.part('control_' + var, outcome='variant has failing requests (expected)')
    # ---- fixed catalog
    T = cc.TYPES
    cat = [[T[0], T[3], T[1]], [T[4], T[2], T[0]]]
    root = os.path.join(chk.scratch, 'cat')
    zd = sc.write_catalog(root, cat)
    ref = {}
    for cleaned in (True, False):
        for abk, subs in (('', False), ('A', dict(A=True, pos=True)), ('AB', dict(A=True, B=True, pid=True))):
            try:
                ref[(cleaned, abk)] = cc.load(zd, cleaned=cleaned, fields='all', subsamples=(dict(subs) if subs else False))
            except Exception as e:  # noqa
                chk.violation(f'all-raises-{"cleaned" if cleaned else "uncleaned"}-{abk or "nosub"}', f"fields='all' cleaned={cleaned} subsamples={subs}: {type(e).__name__}: {e}", dict(cleaned=cleaned))
    # 'all' with and without subsamples, and the default set, agree column by column
    for cleaned in (True, False):
        base = ref.get((cleaned, ''))
        if base is None:
            continue
        for abk in ('A', 'AB'):
            o = ref.get((cleaned, abk))
            if o is None:
                continue
            for col in base.halos.colnames:
                if col.startswith('np') or col not in o.halos.colnames:
                    continue
                if not np.array_equal(np.asarray(base.halos[col]), np.asarray(o.halos[col]), equal_nan=True):
                    chk.violation(f'all-vs-subsamples-{col}', f"column {col} of fields='all' differs with subsamples {abk} (cleaned={cleaned})", dict(col=col))
        try:
            dflt = cc.load(zd, cleaned=cleaned)
            for col in dflt.halos.colnames:
                if col in base.halos.colnames and not np.array_equal(np.asarray(base.halos[col]), np.asarray(dflt.halos[col]), equal_nan=True):
                    chk.violation(f'default-vs-all-{col}', f"column {col} differs between the default field set and fields='all' (cleaned={cleaned})", dict(col=col))
        except Exception as e:  # noqa
            chk.violation('default-raises', f'default fields cleaned={cleaned}: {type(e).__name__}: {e}', {})
    import gc
    gc.collect()
    gc.freeze()
    nload = nontriv = drift = 0
    order = rng.permutation(len(cases)) if not chk.quick else np.arange(len(cases))
    for ci in order:
        c = cases[int(ci)]
        abk = ''.join(c['ABs'])
        subs = {'': False, 'A': dict(A=True, pos=True), 'AB': dict(A=True, B=True, pid=True)}[abk]
        req = list(c['req'])
        # vary the container type of the request
        fields = req[0] if (len(req) == 1 and ci % 2) else (tuple(req) if ci % 3 == 0 else list(req))
        desc = f'fields={req} cleaned={c["cleaned"]} subsamples={subs}'
        payload = dict(req=req, cleaned=c['cleaned'], ABs=c['ABs'])
        tag = f'{"cleaned" if c["cleaned"] else "uncleaned"}-{abk or "nosub"}'
        fields_before = list(fields) if isinstance(fields, list) else None
        try:
            cobj = cc.load(zd, cleaned=c['cleaned'], fields=fields, subsamples=(dict(subs) if subs else False))
            if fields_before is not None and list(fields) != fields_before:
                chk.violation(f'request-list-mutated-{tag}', f'{desc}: the caller\'s field list was modified in place to {list(fields)} (a later load with the same list would request different columns)', payload)
                req = list(fields_before)
        except Exception as e:  # noqa
            chk.violation(f'raises-{tag}-{type(e).__name__}-{"deriv" if any("Mid" in r for r in req) else "plain"}', f'{desc}: {type(e).__name__}: {e}', payload)
            continue
        nload += 1
        nontriv += 1 if (len(req) > 1 or subs) else 0
        R = ref.get((c['cleaned'], ''))
        for col in req:
            if col not in cobj.halos.colnames:
                chk.violation(f'missing-{tag}-{col}', f'{desc}: requested column {col} is not in the table ({cobj.halos.colnames})', payload)
                continue
            got = np.asarray(cobj.halos[col])
            # the subsample index columns are re-based when subsamples are loaded: their canonical value is that of the fields=all load with the same subsamples
            # (only for the subsample that IS loaded; the index columns of a subsample that is not loaded are ordinary columns)
            col_ab = col[len('npstart'):][:1] if col.startswith('npstart') else (col[len('npout'):][:1] if col.startswith('npout') else '')
            Rc = ref.get((c['cleaned'], abk)) if (col_ab and col_ab in c['ABs']) else R
            want = np.asarray(Rc.halos[col]) if Rc is not None and col in Rc.halos.colnames else None
            if want is None:
                continue
            if got.dtype != want.dtype or got.shape != want.shape or not np.array_equal(got, want, equal_nan=True):
                others = [r for r in req if r != col]
                chk.violation(f'value-{col}-{tag}', f'{desc}: column {col} (dtype {got.dtype}, first rows {got[:2].tolist()}) differs from its value in the fields=all load '
                              f'(dtype {want.dtype}, {want[:2].tolist()}) — depends on the co-requested columns {others}', payload)
        # subsample loads must provide the index columns
        for ab in c['ABs']:
            if 'npstart' + ab not in cobj.halos.colnames or 'npout' + ab not in cobj.halos.colnames:
                chk.violation(f'index-columns-{tag}', f'{desc}: subsamples {ab} loaded but npstart{ab}/npout{ab} are not in the halo table', payload)
        # the loader's own dependency record vs the model (drift only)
        di = getattr(cobj, 'dependency_info', None)
        if di is not None and sorted(set(di['extra_fields'])) != sorted(set(c['extra'])):
            drift += 1
        if int(ci) % 250 == 0:
            chk.sample(dict(request=req, cleaned=c['cleaned'], ABs=c['ABs'], model_load_order=c['order'], model_temporaries=c['extra']))
    if drift:
        chk.note(f'model-drift C02: temporary-column set of the loader differs from layer A in {drift} requests (values are judged separately)')
    chk.part('loads', loads=nload, drift=drift)
    # light-cone: a few request sets
    halos = [dict(nA=2, gA=1), dict(nA=0, gA=0), dict(nA=1, gA=2)]
    d = sc.write_lightcone(root, halos)
    nlc = 0
    try:
        allc = cc.load(d, fields='all')
        for req in (['N'], ['pos_interp'], ['vel_interp', 'pos_interp'], ['sigmavMid_L2com', 'N'], ['sigmavMid_L2com', 'index_halo'], ['redshift_interp', 'x_L2com'], ['origin']):
            for subs in (False, dict(A=True, pos=True)):
                try:
                    o = cc.load(d, fields=req, subsamples=(dict(subs) if subs else False))
                    nlc += 1
                    for col in req:
                        if col not in o.halos.colnames or not np.array_equal(np.asarray(o.halos[col]), np.asarray(allc.halos[col]), equal_nan=True):
                            chk.violation(f'lightcone-value-{col}', f'light-cone fields={req} subsamples={subs}: column {col} differs from the fields=all load', dict(req=req))
                except Exception as e:  # noqa
                    chk.violation(f'lightcone-raises-{type(e).__name__}', f'light-cone fields={req} subsamples={subs}: {type(e).__name__}: {e}', dict(req=req))
    except Exception as e:  # noqa
        chk.violation(f'lightcone-all-raises-{type(e).__name__}', f"light-cone fields='all': {type(e).__name__}: {e}", {})
    chk.part('lightcone', loads=nlc)
    chk.add_cases(nload + nlc, nontrivial=nontriv + nlc, traces=nload + nlc)


def replay(chk, path):
    d = json.load(open(path))
    print(d['what'])
    run(chk)
