"""Writes ASDF files whose binary blocks are 'blsc'-compressed with the repository's own BloscCompressor.compress
(asdf 5.4 cannot do it itself: it hands the compressor an ndarray).  An uncompressed file is written first and every
binary block is rewritten: header compression = b'blsc', allocated = used = len(stream), data size unchanged, no checksum."""
import os
import struct

MAGIC = b'\xd3BLK'


def write_blsc(fn, tree, cbs=64):
    import asdf
    from abacusnbody.data.asdf import BloscCompressor
    tmp = fn + '.raw'
    asdf.AsdfFile(tree).write_to(tmp)
    raw = open(tmp, 'rb').read()
    os.remove(tmp)
    first = raw.find(MAGIC)
    out = bytearray(raw[:first])
    pos = first
    comp = BloscCompressor()
    frames_all = []
    while raw[pos:pos + 4] == MAGIC:
        hsize = struct.unpack('>H', raw[pos + 4:pos + 6])[0]
        hdr = raw[pos + 6:pos + 6 + hsize]
        flags, _, alloc, used, dsize = struct.unpack('>I4sQQQ', hdr[:32])
        payload = raw[pos + 6 + hsize:pos + 6 + hsize + used]
        pieces = list(comp.compress(memoryview(payload), compression_block_size=cbs))
        stream = b''.join(pieces)
        frames_all.append([len(p) - 4 for p in pieces])
        newhdr = struct.pack('>I4sQQQ', flags, b'blsc', len(stream), len(stream), dsize) + b'\0' * 16
        out += MAGIC + struct.pack('>H', len(newhdr)) + newhdr + stream
        pos = pos + 6 + hsize + alloc
    rest = raw[pos:]
    idx = rest.find(b'#ASDF BLOCK INDEX')
    out += rest[:idx] if idx >= 0 else rest
    with open(fn, 'wb') as f:
        f.write(out)
    return frames_all
