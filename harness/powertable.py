"""Extended coverage (hosted by C13): the schema of the table calc_power returns — spec/PowerTable.tla.

  TLC: sanity theorems of the decision table; emits every option combination (kbins none/int/array x mubins none/int/array incl. one
       explicit bin x poles none/empty/list x squeeze x logk x second field = 360 cases) with rows, columns, cell shapes and meta keys
  spec->code: calc_power is called for every case on a small particle set; columns, row count, per-row cell shapes, bin edges of the
       integer binnings and meta keys are compared
Reported with chk.extended (never a VIOLATION of C13).
"""
import os
import warnings

import numpy as np

from tlc import run_tlc, read_json

NAME = 'calc_power result schema: rows, columns, cell shapes and meta keys for every binning / multipole option combination'


def run(chk):
    from abacusnbody.analysis.power_spectrum import calc_power
    cf = os.path.join(chk.scratch, 'powertable_cases.json')
    text = "---- MODULE MC_PowerTable ----\nEXTENDS PowerTable\nVARIABLE v\nASSUME Sane\nASSUME Emit(0)\nInit == v = 0\nNext == v' = v\n====\n"
    run_tlc(chk, 'MC_PowerTable', module_text=text, cfg_text='INIT Init\nNEXT Next\n', env={'CASES_OUT': cf}, timeout=600)
    cases = read_json(cf)
    rng = np.random.default_rng(chk.seed + 9)
    L, nmesh = 32.0, 8
    pos = (rng.random((60, 3)) * L).astype(np.float32)
    pos2 = (rng.random((40, 3)) * L).astype(np.float32)
    kmax = np.pi * nmesh / L
    problems = []
    pick = cases if not chk.quick else [c for i, c in enumerate(cases) if i % 9 == 0 or (c['m'] in ('int1', 'array1') and i % 4 == 1)]
    n = 0
    with warnings.catch_warnings():
        warnings.simplefilter('ignore')
        for c in pick:
            kw = dict(nmesh=nmesh, paste=['TSC', 'CIC'][n % 2], compensated=bool(n % 3), interlaced=bool((n // 2) % 2), nthread=1 + n % 3, squeeze_mu_axis=c['sq'], logk=c['logk'])
            if c['k'] == 'int':
                kw['kbins'] = 3
            elif c['k'] == 'array':
                kw['kbins'] = np.array([0.1, 0.3, 0.5, 0.7, 0.75])
            if c['m'] == 'int1':
                kw['mubins'] = 1
            elif c['m'] == 'int':
                kw['mubins'] = 2
            elif c['m'] == 'array':
                kw['mubins'] = np.array([0.0, 0.2, 0.6, 1.0])
            elif c['m'] == 'array1':
                kw['mubins'] = np.array([0.0, 1.0])
            if c['p'] == 'empty':
                kw['poles'] = []
            elif c['p'] == 'two':
                kw['poles'] = [0, 2]
            if c['two']:
                kw.update(pos2=pos2, w2=None)
            desc = f'calc_power kbins={c["k"]} mubins={c["m"]} poles={c["p"]} squeeze_mu_axis={c["sq"]} logk={c["logk"]} pos2={c["two"]}'
            try:
                t = calc_power(pos, L, **kw)
            except Exception as e:  # noqa
                problems.append(f'{desc}: {type(e).__name__}: {str(e)[:120]}')
                continue
            n += 1
            if sorted(t.colnames) != sorted(c['cols']):
                problems.append(f'{desc}: columns {sorted(t.colnames)}, the table says {sorted(c["cols"])}')
                continue
            if len(t) != c['rows']:
                problems.append(f'{desc}: {len(t)} rows, the table says {c["rows"]}')
                continue
            for col, cell in c['cells'].items():
                shp = np.asarray(t[col]).shape[1:]
                want = () if cell == 0 else (cell,)
                if shp != want:
                    problems.append(f'{desc}: column {col} has cell shape {shp}, the table says {want}')
            if sorted(t.meta) != sorted(c['meta']):
                problems.append(f'{desc}: meta keys {sorted(t.meta)}, the table says {sorted(c["meta"])}')
            kmin, kmx = np.asarray(t['k_min']), np.asarray(t['k_max'])
            if not np.all(kmx > kmin) or not np.allclose(kmin[1:], kmx[:-1]):
                problems.append(f'{desc}: k bins are not contiguous and increasing')
            if c['k'] != 'array':
                first = (1.0 - 1.0e-4) * 2 * np.pi / L if c['logk'] else 0.0
                if not np.isclose(kmin[0], first, rtol=1e-12, atol=1e-15) or not np.isclose(kmx[-1], kmax, rtol=1e-12):
                    problems.append(f'{desc}: k range [{kmin[0]}, {kmx[-1]}], the table says [{first}, {kmax}]')
            if 'N_mode' in t.colnames and int(np.asarray(t['N_mode']).sum()) < 0:
                problems.append(f'{desc}: negative mode counts')
    chk.part('powertable', cases=len(cases), executed=n)
    chk.add_cases(n, traces=n)
    chk.extended(NAME, not problems, '; '.join(list(dict.fromkeys(problems))[:4]) or f'{n} option combinations agree with the decision table')
