"""Synthetic CompaSO halo catalogs written as real ASDF files (uncompressed), from an abstract catalog.

Abstract catalog = list of superslabs; a superslab = list of halos; a halo is a dict
    nA, gA   number of subsample-A particles of the halo and of unindexed (L0) particles preceding them in the file
    mA, hA   number of merged-in A particles in the cleaning file and of unrelated particles preceding them there
    nB, gB, mB, hB   the same for subsample B
    away     the halo was cleaned away (N_total = 0)
Every particle carries a unique token, recoverable independently from pos, vel and pid:
    token = slab*4000 + {A orig: 0, B orig: 1000, A merged: 2000, B merged: 3000} + position in its file
Every halo column value encodes the halo's uid (slab*100 + row), see raw_halo_columns().
"""
import os
import shutil

import numpy as np

BOX, VELZ, PPD = 1000.0, 1100.0, 1024
KBASE = {('A', 'o'): 0, ('B', 'o'): 1000, ('A', 'm'): 2000, ('B', 'm'): 3000}
I16_COLS = ['sigmavMin_to_sigmav3d', 'sigmavMax_to_sigmav3d', 'sigmavrad_to_sigmav3d', 'sigmavtan_to_sigmav3d',
            'r10', 'r25', 'r33', 'r50', 'r67', 'r75', 'r90', 'r95', 'r98', 'rvcirc_max']
NPREV = 3


def token(slab, AB, kind, pos):
    return slab * 4000 + KBASE[(AB, kind)] + pos


def rvint_of(tok):
    """(3,) int32 words: pos word carries the token in x (and token+1, token+2 in y, z); vel carries token mod 4096, token // 4096"""
    def enc(P, V):
        return np.int64(P) * 4096 + (V + 2048)
    w = [enc(tok, (tok % 4096) - 2048), enc(tok + 1 - 262144, (tok // 4096) - 2048), enc(-tok, 7)]
    return np.array(w, dtype=np.int64).astype(np.int32)


def aux_of(tok):
    x, y, z = tok % 32768, tok // 32768, (tok * 7) % 32768
    tagged = tok % 2
    dens = tok % 1024
    other = (1 << 15) | (1 << 47) | (0x15 << 59)          # non-field bits set: must not leak into any field
    return np.uint64(x | (y << 16) | (z << 32) | (tagged << 48) | (dens << 49) | other)


def tok_from_pos(pos, box=BOX):
    return np.rint(np.asarray(pos, dtype=np.float64)[:, 0] * 1e6 / box).astype(np.int64)


def tok_from_vel(vel):
    v = np.rint(np.asarray(vel, dtype=np.float64) * 2048 / 6000).astype(np.int64) + 2048
    return v[:, 0] + 4096 * v[:, 1]


def tok_from_pid(pid):
    p = np.asarray(pid).astype(np.int64)
    return (p & 0x7FFF) + 32768 * ((p >> 16) & 0x7FFF)


def tok_from_rvint(rv):
    return (np.asarray(rv, dtype=np.int64)[:, 0]) >> 12


def tok_from_packedpid(pp):
    p = np.asarray(pp).astype(np.uint64)
    return ((p & np.uint64(0x7FFF)) + np.uint64(32768) * ((p >> np.uint64(16)) & np.uint64(0x7FFF))).astype(np.int64)


def layout(slab_halos, AB):
    """per halo: (orig start, n, merge start, m) in the particle file / cleaning file of one slab"""
    out, p, q = [], 0, 0
    for h in slab_halos:
        p += h['g' + AB]
        q += h['h' + AB]
        out.append((p, h['n' + AB], q, h['m' + AB]))
        p += h['n' + AB]
        q += h['m' + AB]
    return out, p, q


def raw_halo_columns(uids, overrides=None):
    """raw halo_info columns for halos with the given uids (each value encodes the uid)"""
    u = np.asarray(uids, dtype=np.int64)
    n = len(u)
    f = u.astype(np.float32)
    cols = {
        'id': (u + 1000).astype(np.uint64),
        'ntaggedA': (u % 5).astype(np.uint32), 'ntaggedB': (u % 3).astype(np.uint32),
        'N': (u + 50).astype(np.uint32),
        'L2_N': (u[:, None] + np.arange(5)[None, :]).astype(np.uint32),
        'L0_N': (u + 70).astype(np.uint32),
        'SO_central_density': f + np.float32(0.5),
        'SO_L2max_central_density': f + np.float32(1.5),
    }
    for ci, com in enumerate(('_com', '_L2com')):
        o = np.float32(ci)
        cols['x' + com] = np.stack([(f + 1 + o) / 1024 - 0.25, (f + 2 + o) / 1024 - 0.25, (f + 3 + o) / 1024 - 0.25], axis=1).astype(np.float32)
        cols['v' + com] = np.stack([f + o, -f - o, f * 2 + o], axis=1).astype(np.float32) / np.float32(16)
        cols['sigmav3d' + com] = (f + 2 + o) / np.float32(8)
        cols['meanSpeed' + com] = (f + 3 + o) / np.float32(8)
        cols['sigmav3d_r50' + com] = (f + 4 + o) / np.float32(8)
        cols['meanSpeed_r50' + com] = (f + 5 + o) / np.float32(8)
        cols['r100' + com] = (f + 1 + o) / np.float32(2048)
        cols['vcirc_max' + com] = (f + 6 + o) / np.float32(4)
        for k, nm in enumerate(I16_COLS):
            cols[nm + com + '_i16'] = ((u * 37 + k * 1000 + ci * 333) % 32001).astype(np.int16)
        cols['sigmar' + com + '_i16'] = ((u[:, None] * 11 + np.arange(3)[None, :] * 5000 + ci) % 32001).astype(np.int16)
        cols['sigman' + com + '_i16'] = ((u[:, None] * 13 + np.arange(3)[None, :] * 7000 + ci) % 32001).astype(np.int16)
        for k, nm in enumerate(('sigmar_eigenvecs', 'sigmav_eigenvecs', 'sigman_eigenvecs')):
            cols[nm + com + '_u16'] = ((u * 4093 + k * 9973 + ci * 31) % 65340).astype(np.uint16)
    cols['SO_central_particle'] = cols['x_com'] + np.float32(1 / 4096)
    cols['SO_radius'] = (f + 1) / np.float32(1024)
    cols['SO_L2max_central_particle'] = cols['x_L2com'] + np.float32(1 / 4096)
    cols['SO_L2max_radius'] = (f + 2) / np.float32(1024)
    # make the two principal ratios small enough that sigmavMid is real: Min^2 + Max^2 <= 32000^2
    for com in ('_com', '_L2com'):
        cols['sigmavMin_to_sigmav3d' + com + '_i16'] = (cols['sigmavMin_to_sigmav3d' + com + '_i16'].astype(np.int64) % 15000).astype(np.int16)
        cols['sigmavMax_to_sigmav3d' + com + '_i16'] = (15000 + cols['sigmavMax_to_sigmav3d' + com + '_i16'].astype(np.int64) % 10000).astype(np.int16)
    if overrides:
        for k, v in overrides.items():
            cols[k] = np.asarray(v, dtype=cols[k].dtype).reshape(cols[k].shape)
    return cols


def raw_clean_columns(uids, N_total, overrides=None):
    u = np.asarray(uids, dtype=np.int64)
    f = u.astype(np.float32)
    cols = {
        'N_total': np.asarray(N_total, dtype=np.uint32),
        'N_merge': (u % 4).astype(np.uint32),
        'haloindex': (u + 5000).astype(np.uint64),
        'is_merged_to': (u - 1).astype(np.int64),
        'N_mainprog': (u[:, None] + np.arange(NPREV)[None, :] + 10).astype(np.uint32),
        'vcirc_max_L2com_mainprog': (f[:, None] + np.arange(NPREV, dtype=np.float32)[None, :]) / np.float32(4),
        'sigmav3d_L2com_mainprog': (f[:, None] + np.arange(NPREV, dtype=np.float32)[None, :]) / np.float32(8),
        'haloindex_mainprog': (u + 6000).astype(np.int64),
        'v_L2com_mainprog': np.stack([f, f + 1, f + 2], axis=1).astype(np.float32) / np.float32(16),
    }
    if overrides:
        for k, v in overrides.items():
            cols[k] = np.asarray(v, dtype=cols[k].dtype).reshape(cols[k].shape)
    return cols


def header(**kw):
    h = {'BoxSize': BOX, 'VelZSpace_to_kms': VELZ, 'ppd': float(PPD), 'SimName': 'SimA', 'Redshift': 0.0,
         'ParticleMassHMsun': 1.0e9, 'H0': 67.0, 'OutputType': 'TimeSlice'}
    h.update(kw)
    return h


def uid(s, k):
    return s * 100 + k


def write_catalog(root, cat, hdr=None, halo_overrides=None, clean_overrides=None, sim='SimA', zdir='z0.000', with_cleaning=True):
    """Writes <root>/<sim>/halos/<zdir>/... and <root>/cleaning/<sim>/<zdir>/...; returns the redshift dir.
    halo_overrides / clean_overrides: {slab: {column: values}}"""
    import asdf
    hdr = hdr or header()
    zd = os.path.join(root, sim, 'halos', zdir)
    cd = os.path.join(root, 'cleaning', sim, zdir)
    shutil.rmtree(os.path.join(root, sim), ignore_errors=True)
    shutil.rmtree(os.path.join(root, 'cleaning'), ignore_errors=True)
    for d in ('halo_info', 'halo_rv_A', 'halo_rv_B', 'halo_pid_A', 'halo_pid_B'):
        os.makedirs(os.path.join(zd, d))
    if with_cleaning:
        os.makedirs(os.path.join(cd, 'cleaned_halo_info'))
        os.makedirs(os.path.join(cd, 'cleaned_rvpid'))
    for s, halos in enumerate(cat):
        uids = [uid(s, k) for k in range(len(halos))]
        cols = raw_halo_columns(uids, (halo_overrides or {}).get(s))
        ccols_ix = {}
        clean_parts = {}
        for AB in 'AB':
            lay, plen, qlen = layout(halos, AB)
            cols['npstart' + AB] = np.array([l[0] for l in lay], dtype=np.uint64).reshape(len(halos))
            cols['npout' + AB] = np.array([l[1] for l in lay], dtype=np.uint32).reshape(len(halos))
            ccols_ix['npstart' + AB + '_merge'] = np.array([l[2] for l in lay], dtype=np.int64).reshape(len(halos))
            ccols_ix['npout' + AB + '_merge'] = np.array([l[3] for l in lay], dtype=np.uint32).reshape(len(halos))
            toks = [token(s, AB, 'o', p) for p in range(plen)]
            rv = np.array([rvint_of(t) for t in toks], dtype=np.int32).reshape(-1, 3)
            pp = np.array([aux_of(t) for t in toks], dtype=np.uint64)
            asdf.AsdfFile({'header': hdr, 'data': {'rvint': rv}}).write_to(os.path.join(zd, f'halo_rv_{AB}', f'halo_rv_{AB}_{s:03d}.asdf'))
            asdf.AsdfFile({'header': hdr, 'data': {'packedpid': pp}}).write_to(os.path.join(zd, f'halo_pid_{AB}', f'halo_pid_{AB}_{s:03d}.asdf'))
            mtoks = [token(s, AB, 'm', p) for p in range(qlen)]
            clean_parts['rvint_' + AB] = np.array([rvint_of(t) for t in mtoks], dtype=np.int32).reshape(-1, 3)
            clean_parts['packedpid_' + AB] = np.array([aux_of(t) for t in mtoks], dtype=np.uint64)
        if not (halo_overrides or {}).get(s, {}).get('N') is not None:
            pass
        asdf.AsdfFile({'header': hdr, 'data': cols}).write_to(os.path.join(zd, 'halo_info', f'halo_info_{s:03d}.asdf'))
        if with_cleaning:
            ntot = [0 if h.get('away') else int(cols['N'][k]) + h['mA'] + h['mB'] for k, h in enumerate(halos)]
            ccols = raw_clean_columns(uids, ntot, (clean_overrides or {}).get(s))
            ccols.update(ccols_ix)
            chdr = dict(hdr)
            chdr['TimeSliceRedshiftsPrev'] = [0.1 * (i + 1) for i in range(NPREV)]
            asdf.AsdfFile({'header': chdr, 'data': ccols}).write_to(os.path.join(cd, 'cleaned_halo_info', f'cleaned_halo_info_{s:03d}.asdf'))
            asdf.AsdfFile({'header': chdr, 'data': clean_parts}).write_to(os.path.join(cd, 'cleaned_rvpid', f'cleaned_rvpid_{s:03d}.asdf'))
    return zd


def write_lightcone(root, halos, hdr=None, name='halo_light_cones', sim='SimA', zdir='z0.100'):
    """Light-cone layout: <root>/halo_light_cones/<sim>/<zdir>/lc_halo_info.asdf + lc_pid_rv.asdf.
    halos: list of dicts with nA, gA (subsample A only).  Returns the directory."""
    import asdf
    hdr = hdr or header(OutputType='LightCone')
    d = os.path.join(root, name, sim, zdir)
    shutil.rmtree(d, ignore_errors=True)
    os.makedirs(d)
    n = len(halos)
    uids = [uid(0, k) for k in range(n)]
    cols = raw_halo_columns(uids)
    lay, plen, _ = layout([dict(h, hA=0, mA=0) for h in halos], 'A')
    u = np.asarray(uids, dtype=np.int64)
    f = u.astype(np.float32)
    lc = {
        'N': (u + 50).astype(np.uint32), 'N_interp': (u + 51).astype(np.uint32),
        'npstartA': np.array([l[0] for l in lay], dtype=np.uint64).reshape(n), 'npoutA': np.array([l[1] for l in lay], dtype=np.uint32).reshape(n),
        'index_halo': (u + 7000).astype(np.int64), 'origin': ((u % 3) + 3 * (u % 2)).astype(np.int8),
        'pos_avg': np.where((u % 2 == 0)[:, None], np.stack([f, f + 1, f + 2], axis=1), 0).astype(np.float32),
        'pos_interp': np.stack([f + 10, f + 11, f + 12], axis=1).astype(np.float32),
        'vel_avg': np.stack([f + 20, f + 21, f + 22], axis=1).astype(np.float32),
        'vel_interp': np.stack([f + 30, f + 31, f + 32], axis=1).astype(np.float32),
        'redshift_interp': (f / 64).astype(np.float32),
    }
    for k in ('N', 'npstartA', 'npoutA'):
        cols.pop(k, None)
    cols.update(lc)
    asdf.AsdfFile({'header': hdr, 'data': cols}).write_to(os.path.join(d, 'lc_halo_info.asdf'))
    toks = np.array([token(0, 'A', 'o', p) for p in range(plen)], dtype=np.int64)
    pos = np.stack([toks * (BOX / 1e6), toks * 0.0 + 1, toks * 0.0 + 2], axis=1).astype(np.float32)
    vel = np.stack([((toks % 4096) - 2048) * (6000 / 2048), ((toks // 4096) - 2048) * (6000 / 2048), toks * 0.0], axis=1).astype(np.float32)
    pid = ((toks % 32768) + ((toks // 32768) << 16)).astype(np.int64)
    asdf.AsdfFile({'header': hdr, 'data': {'pos': pos, 'vel': vel, 'pid': pid}}).write_to(os.path.join(d, 'lc_pid_rv.asdf'))
    return d
