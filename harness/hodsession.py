"""Extended coverage (hosted by C10): AbacusHOD as a long-lived object — spec/HodSession.tla.

  M1  TLC: every call sequence of <= 3 calls (28-call alphabet): HistoryFree, ReadBack, Pure, EpochSticky; three positive controls
  M2  TLC emits every sequence of <= 2 (quick) / 3 (thorough) calls over a reduced alphabet with the expected observable of each call;
      each is executed on a pristine copy of a really staged AbacusHOD object (synthetic HDF5 slabs) and every return value is
      compared with the reference of its abstract observable (epoch, tracers, rsd) obtained from a one-call session
  M3  long random call sequences are executed on the real object, every return value is abstracted by reference lookup, and the
      recorded traces are validated by TLC against Step
Reported with chk.extended (never a VIOLATION of C10).
"""
import copy
import json
import os
import shutil
import warnings

import numpy as np

from tlc import run_tlc, read_json

SIM = 'SimS'
MPART = 1.0e9
import hodcommon
LRG1 = dict(hodcommon.LRG, logM_cut=12.3, logM1=13.0, sigma=0.4, ic=0.9)
LRG2 = dict(hodcommon.LRG, logM_cut=12.0, logM1=12.8, sigma=0.6, alpha=0.9, kappa=0.4, alpha_c=0.1, alpha_s=1.1, ic=1.0)
INVS = ['HistoryFree', 'ReadBack']
PROPS = ['Pure', 'EpochSticky']


def cfg(mut, n=3):
    return (f'CONSTANTS\n  Mut = "{mut}"\n  MaxCalls = {n}\nSPECIFICATION Spec\n' + ''.join(f'INVARIANT {i}\n' for i in INVS)
            + ''.join(f'PROPERTY {p}\n' for p in PROPS) + 'CHECK_DEADLOCK FALSE\n')


def write_sim(root, rng, nh=240, npart=5):
    import asdf
    import h5py
    import c12
    shutil.rmtree(root, ignore_errors=True)
    sub = os.path.join(root, 'subsample', SIM, 'z0.500')
    hi = os.path.join(root, 'sim', SIM, 'halos', 'z0.500', 'halo_info')
    os.makedirs(sub)
    os.makedirs(hi)
    ids = rng.permutation(nh) * 3 + 11
    for s, sl in enumerate(np.array_split(ids, 3)):
        asdf.AsdfFile({'header': {'H0': 67.0, 'BoxSize': 2000.0, 'ParticleMassHMsun': MPART, 'VelZSpace_to_kms': 75.0}, 'data': {'x': np.zeros(1)}}).write_to(
            os.path.join(hi, f'halo_info_{s:03d}.asdf'))
        h = c12.halo_struct(sl)
        n = len(sl)
        h['x_L2com'] = rng.uniform(-990, 990, (n, 3))
        h['v_L2com'] = rng.normal(0, 300, (n, 3))
        h['randoms_exp'] = rng.normal(0, 1, (n, 3))
        h['randoms_gaus_vrms'] = rng.normal(0, 100, (n, 3))
        h['sigmav3d_L2com'] = rng.uniform(100, 500, n)
        h['r98_L2com'] = rng.uniform(0.2, 2, n)
        h['r25_L2com'] = h['r98_L2com'] / rng.uniform(3, 10, n)
        h['N'] = np.rint(10 ** rng.uniform(2.6, 4.6, n))
        h['deltac_rank'] = rng.uniform(-0.5, 0.5, n)
        h['fenv_rank'] = rng.uniform(-0.5, 0.5, n)
        h['shear_rank'] = rng.uniform(-0.5, 0.5, n)
        h['multi_halos'] = 1.0
        h['randoms'] = rng.random(n)
        with h5py.File(os.path.join(sub, f'halos_xcom_{s}_seed600_abacushod_oldfenv_MT_new.h5'), 'w') as f:
            f.create_dataset('halos', data=h)
        hosts = np.repeat(np.arange(n), npart)
        p = c12.part_struct(sl[hosts], rng)
        p['pos'] = h['x_L2com'][hosts] + rng.normal(0, 0.3, (len(hosts), 3))
        p['vel'] = h['v_L2com'][hosts] + rng.normal(0, 200, (len(hosts), 3))
        p['halo_vel'] = h['v_L2com'][hosts]
        p['halo_mass'] = h['N'][hosts] * MPART
        p['Np'] = float(npart)
        p['downsample_halo'] = 1.0
        p['randoms'] = rng.random(len(hosts))
        p['halo_deltac'] = h['deltac_rank'][hosts]
        p['halo_fenv'] = h['fenv_rank'][hosts]
        p['halo_shear'] = h['shear_rank'][hosts]
        with h5py.File(os.path.join(sub, f'particles_xcom_{s}_seed600_abacushod_oldfenv_MT_new.h5'), 'w') as f:
            f.create_dataset('particles', data=p)
    sim_params = dict(sim_name=SIM, sim_dir=os.path.join(root, 'sim'), subsample_dir=os.path.join(root, 'subsample'), output_dir=os.path.join(root, 'out'), z_mock=0.5, force_mt=True)
    HOD_params = dict(tracer_flags=dict(LRG=True, ELG=False, QSO=False), LRG_params=dict(LRG1), want_ranks=False, want_AB=False, want_shear=False,
                      want_expvel=False, want_rsd=True)
    return sim_params, HOD_params


GAL = ('x', 'y', 'z', 'vx', 'vy', 'vz', 'mass', 'id')


def fp(d):
    """fingerprint of one tracer's galaxy dict / table"""
    return tuple(np.asarray(d[k]).tobytes() for k in GAL)


class Session:
    """a pristine staged object; fresh() gives an independent copy with an empty output directory"""

    def __init__(self, root, rng):
        from abacusnbody.hod.abacus_hod import AbacusHOD
        import logging
        logging.getLogger('AbacusHOD').setLevel(logging.ERROR)
        self.sim_params, self.HOD_params = write_sim(root, rng)
        with warnings.catch_warnings():
            warnings.simplefilter('ignore')
            self.pristine = AbacusHOD(self.sim_params, self.HOD_params)
        self.out = os.path.join(root, 'out')
        self.static = {k: np.asarray(v).copy() for d in (self.pristine.halo_data, self.pristine.particle_data) for k, v in d.items()
                       if k not in ('hrandoms', 'hveldev', 'prandoms')}
        self.hist_sums = (float(np.sum(self.pristine.halo_mass_func)), float(np.sum(self.pristine.halo_mass_func_wshear)))
        self.ref = {}
        self.ngal_ref = {}

    def fresh(self):
        shutil.rmtree(self.out, ignore_errors=True)
        # the mass-function histograms (100^4 bins) are shared read-only; everything a call could legitimately or illegitimately touch is copied
        b = copy.copy(self.pristine)
        b.halo_data = {k: np.array(v, copy=True) for k, v in self.pristine.halo_data.items()}
        b.particle_data = {k: np.array(v, copy=True) for k, v in self.pristine.particle_data.items()}
        b.tracers = copy.deepcopy(self.pristine.tracers)
        b.params = copy.deepcopy(self.pristine.params)
        return b

    def tracers(self, tr):
        return None if tr == 1 else {'LRG': dict(LRG2)}

    def do(self, ball, c, nthread):
        """execute one abstract call on the real object; returns ('mock', dict) / ('ngal', tuple) / ('table', table) / ('error', str)"""
        with warnings.catch_warnings():
            warnings.simplefilter('ignore')
            if c['op'] == 'run':
                t = self.tracers(c['tr'])
                t0 = copy.deepcopy(t)
                m = ball.run_hod(tracers=t, want_rsd=bool(c['rsd']), reseed=(c['rs'] or None), write_to_disk=bool(c['wr']), Nthread=nthread, verbose=False)
                if t != t0:
                    return ('mutated-tracers', m)
                return ('mock', m)
            if c['op'] == 'ngal':
                import io
                import contextlib
                with contextlib.redirect_stdout(io.StringIO()):
                    n, f = ball.compute_ngal(tracers=self.tracers(c['tr']), Nthread=nthread)
                return ('ngal', (float(n['LRG']), float(f['LRG'])))
            try:
                return ('table', ball.gal_reader(want_rsd=bool(c['rsd'])))
            except Exception as e:  # noqa  (a missing file surfaces as FileNotFoundError or, through astropy's guessing, AttributeError)
                return ('error', type(e).__name__)

    def reference(self, ep, tr, rsd):
        k = (ep, tr, bool(rsd))
        if k not in self.ref:
            b = self.fresh()
            kind, m = self.do(b, dict(op='run', tr=tr, rsd=rsd, rs=ep, wr=False), 2)
            self.ref[k] = (fp(m['LRG']), int(m['LRG']['Ncent']), len(m['LRG']['x']))
        return self.ref[k]

    def abstract(self, kind, val):
        """real return value -> abstract observable of the spec (reference lookup); None if it matches no reference"""
        if kind in ('mock', 'table'):
            g = val['LRG']
            f = fp(g)
            for ep in (0, 5, 9):
                for tr in (1, 2):
                    for rsd in (True, False):
                        r = self.reference(ep, tr, rsd)
                        if r[0] == f:
                            nc = ('Ncent' in g) if kind == 'mock' else True
                            if kind == 'table' and int(g.meta.get('Ncent', -1)) != r[1]:
                                return None
                            return dict(kind=kind, ep=ep, tr=tr, rsd=rsd, ncent=bool(nc), taint=0)
            return None
        if kind == 'ngal':
            return dict(kind='ngal', ep=0, tr=0, rsd=False, ncent=False, taint=0)
        return dict(kind='error', ep=0, tr=0, rsd=False, ncent=False, taint=0)

    def static_changed(self, ball):
        for d in (ball.halo_data, ball.particle_data):
            for k, v in d.items():
                if k in self.static and not np.array_equal(np.asarray(v), self.static[k]):
                    return k
        return None


def run(chk):
    rng = np.random.default_rng(chk.seed + 77)
    problems, notes = [], []
    # ---- M1
    r = run_tlc(chk, 'HodSession', cfg_text=cfg('none'), timeout=600)
    chk.part('session_M1', states=r['distinct'], depth=r['depth'])
    for mut in ('rsdinplace', 'ngalreseeds', 'onefile'):
        rr = run_tlc(chk, 'HodSession', cfg_text=cfg(mut), expect_violation=True, record=False, timeout=300)
        if rr['outcome'] == 'ok':
            raise RuntimeError(f'HodSession positive control {mut} not rejected')
    # ---- M2
    n = 2 if chk.quick else 3
    cf = os.path.join(chk.scratch, 'session_cases.json')
    text = f"---- MODULE MC_HodSession ----\nEXTENDS HodSession\nASSUME Emit({n})\n====\n"
    run_tlc(chk, 'MC_HodSession', module_text=text, cfg_text=cfg('none', 0), env={'CASES_OUT': cf}, timeout=1200)
    cases = read_json(cf)
    S = Session(os.path.join(chk.scratch, 'session'), rng)
    # the references must separate the abstract observables, or the comparison below is vacuous
    fps = {}
    for ep in (0, 5, 9):
        for tr in (1, 2):
            for rsd in (True, False):
                fps.setdefault(S.reference(ep, tr, rsd)[0], []).append((ep, tr, rsd))
    if len(fps) != 12 or min(S.reference(e, t, r_)[2] for e in (0, 5, 9) for t in (1, 2) for r_ in (True, False)) < 20:
        raise RuntimeError(f'HodSession references do not separate the abstract observables: {list(fps.values())}')
    # the reference itself: the same one-call session twice, and at another thread count
    for (ep, tr, rsd) in ((0, 1, True), (5, 2, False), (9, 1, True)):
        b = S.fresh()
        _, m = S.do(b, dict(op='run', tr=tr, rsd=rsd, rs=ep, wr=False), 5)
        if fp(m['LRG']) != S.reference(ep, tr, rsd)[0]:
            problems.append(f'a one-call session run_hod(tr={tr}, rsd={rsd}, reseed={ep or None}) differs between Nthread=2 and Nthread=5')
    nexec = 0
    ngal_seen = {}
    for ci, c in enumerate(cases):
        ball = S.fresh()
        hist = []
        for k, (call, exp) in enumerate(zip(c['calls'], c['outs'])):
            hist.append({kk: call[kk] for kk in ('op', 'tr', 'rsd', 'rs', 'wr')})
            kind, val = S.do(ball, call, [1, 2, 3, 5, 16][(ci + k) % 5])
            nexec += 1
            desc = f'calls {hist}: call {k + 1}'
            if kind == 'mutated-tracers':
                problems.append(f'{desc} modified the caller\'s tracer dict')
                kind = 'mock'
            if kind != exp['kind']:
                problems.append(f'{desc} returned {kind}, the model expects {exp["kind"]}')
                break
            if kind in ('mock', 'table'):
                ref = S.reference(exp['ep'], exp['tr'], exp['rsd'])
                g = val['LRG']
                if fp(g) != ref[0]:
                    a = S.abstract(kind, val)
                    problems.append(f'{desc} returned galaxies that differ from a one-call session with (epoch={exp["ep"]}, tracers={exp["tr"]}, rsd={exp["rsd"]})'
                                    + (f'; they equal the session (epoch={a["ep"]}, tracers={a["tr"]}, rsd={a["rsd"]})' if a else '; they match no one-call session (history-dependent)'))
                    break
                if kind == 'mock' and ('Ncent' in g) != exp['ncent']:
                    notes.append(f'drift: Ncent key present={"Ncent" in g}, model says {exp["ncent"]}')
                if kind == 'mock' and 'Ncent' in g and int(g['Ncent']) != ref[1]:
                    problems.append(f'{desc}: Ncent {g["Ncent"]} != {ref[1]}')
                if kind == 'table' and int(g.meta.get('Ncent', -1)) != ref[1]:
                    problems.append(f'{desc}: table meta Ncent {g.meta.get("Ncent")} != {ref[1]} of the catalogue written')
            if kind == 'ngal':
                # the mean-occupation sums are parallel floating-point reductions: equal up to rounding for every thread count
                if not np.allclose(ngal_seen.setdefault(call['tr'], val), val, rtol=1e-10, atol=0):
                    problems.append(f'{desc}: compute_ngal returned {val}, earlier {ngal_seen[call["tr"]]} for the same tracers')
            ch = S.static_changed(ball)
            if ch:
                problems.append(f'{desc} modified the staged array {ch}')
                break
        if len(problems) > 6:
            break
    if (float(np.sum(S.pristine.halo_mass_func)), float(np.sum(S.pristine.halo_mass_func_wshear))) != S.hist_sums:
        problems.append('the halo mass-function histograms of the object changed during the calls')
    chk.part('session_M2', sequences=len(cases), calls=nexec)
    # ---- M3: long random sequences on the real object, validated by TLC
    import itertools
    alphabet = ([dict(op='run', tr=t, rsd=r_, rs=s, wr=w) for t, r_, s, w in itertools.product((1, 2), (True, False), (0, 5, 9), (True, False))]
                + [dict(op='ngal', tr=t, rsd=False, rs=0, wr=False) for t in (1, 2)] + [dict(op='read', tr=1, rsd=r_, rs=0, wr=False) for r_ in (True, False)])
    traces = []
    for ti in range(12 if chk.quick else 120):
        ball = S.fresh()
        tr = []
        for k in range(int(rng.integers(4, 13))):
            call = alphabet[int(rng.integers(0, len(alphabet)))]
            kind, val = S.do(ball, call, int(rng.integers(1, 17)))
            if kind == 'mutated-tracers':
                kind = 'mock'
            a = S.abstract(kind, val)
            if a is None:
                a = dict(kind='unknown', ep=0, tr=0, rsd=False, ncent=False, taint=0)
            tr.append(dict(call=call, out=a))
        traces.append(tr)
    tf = os.path.join(chk.scratch, 'session_traces.json')
    json.dump(traces, open(tf, 'w'))
    text = "---- MODULE MC_HodSessionTrace ----\nEXTENDS HodSession\nASSUME AllAccepted(0)\n====\n"
    rr = run_tlc(chk, 'MC_HodSessionTrace', module_text=text, cfg_text=cfg('none', 0), env={'TRACE_FILE': tf}, expect_violation=True, timeout=600)
    if rr['outcome'] != 'ok':
        line = [ln for ln in rr['out'].splitlines() if 'REJECTED' in ln]
        problems.append(f'TLC rejects recorded session traces: {line[:1] or rr["outcome"]}')
    # self-test of the binding: corrupt one recorded observable, TLC must reject
    bad = copy.deepcopy(traces[:3])
    for tr in bad:
        for e in tr:
            if e['out']['kind'] == 'mock':
                e['out']['ep'] = 5 if e['out']['ep'] != 5 else 9
                break
    json.dump(bad, open(tf, 'w'))
    rr2 = run_tlc(chk, 'MC_HodSessionTrace', module_text=text, cfg_text=cfg('none', 0), env={'TRACE_FILE': tf}, expect_violation=True, record=False, timeout=600)
    if rr2['outcome'] == 'ok' and any(e['out']['kind'] == 'mock' for tr in bad for e in tr):
        raise RuntimeError('HodSession trace validation accepted a corrupted trace')
    chk.part('session_M3', traces=len(traces), events=sum(len(t) for t in traces))
    chk.add_cases(nexec + sum(len(t) for t in traces), traces=len(cases) + len(traces))
    # observation: reseed=0 is treated as "no reseed"
    detail = '; '.join(dict.fromkeys(problems[:4] + notes[:2]))
    chk.extended('AbacusHOD session: run_hod output depends on (random epoch, tracers, rsd) only; gal_reader returns the last write; compute_ngal is pure',
                 not problems, detail or f'{len(cases)} exhaustive call sequences, {len(traces)} recorded traces accepted by TLC (reseed=0 behaves as reseed=None, as coded)')
