"""Thin TLC driver: runs tlc / pcal under timeout with a private metadir, parses counts."""
import json
import os
import re
import shutil
import subprocess
import time

from common import SPEC

JAR = '/opt/veriftools/tla/tla2tools.jar:/opt/veriftools/tla/CommunityModules-deps.jar'


class TLCError(RuntimeError):
    pass


def run_tlc(chk, module, cfg=None, cfg_text=None, workers=16, timeout=300, env=None, simulate=None,
            depth=None, extra=(), expect_violation=False, record=True, deadlock=False, mode='check', xmx='8g',
            module_text=None):
    """Run TLC on spec/<module>.tla.  Returns dict(generated, distinct, depth, outcome, out, ...).
    outcome: 'ok' | 'invariant' | 'property' | 'deadlock' | 'assume' | 'error'."""
    wd = os.path.join(chk.scratch, f'tlc-{module}-{int(time.time()*1000)%10**9}')
    os.makedirs(wd, exist_ok=True)
    # TLC resolves modules relative to the spec file's directory: copy spec dir content lazily via -I? use cwd=SPEC
    if cfg_text is not None:
        cfg = os.path.join(wd, f'{module}.cfg')
        with open(cfg, 'w') as f:
            f.write(cfg_text)
    elif cfg is None:
        cfg = os.path.join(SPEC, f'{module}.cfg')
    elif not os.path.isabs(cfg):
        cfg = os.path.join(SPEC, cfg)
    specfile = os.path.join(SPEC, f'{module}.tla')
    if module_text is not None:
        # generated root module (e.g. MC_* with literal constants); library modules come from spec/
        specfile = os.path.join(wd, f'{module}.tla')
        with open(specfile, 'w') as f:
            f.write(module_text)
    cmd = ['java', '-XX:+UseParallelGC', f'-Xmx{xmx}', f'-DTLA-Library={SPEC}', '-cp', JAR, 'tlc2.TLC', '-metadir', os.path.join(wd, 'meta'),
           '-noGenerateSpecTE', '-config', cfg, '-workers', str(workers)]
    if not deadlock:
        cmd += ['-deadlock']
    if simulate:
        cmd += ['-simulate', simulate]
    if depth:
        cmd += ['-depth', str(depth)]
    cmd += list(extra) + [specfile]
    e = dict(os.environ)
    e.update({k: str(v) for k, v in (env or {}).items()})
    t0 = time.time()
    try:
        p = subprocess.run(cmd, cwd=os.path.dirname(specfile), env=e, capture_output=True, text=True, timeout=timeout)
    except subprocess.TimeoutExpired as ex:
        subprocess.run(['pkill', '-f', wd], check=False)
        raise TLCError(f'TLC timeout on {module} after {timeout}s')
    out = p.stdout + p.stderr
    res = dict(module=module, cfg=os.path.basename(cfg), mode='simulate' if simulate else mode, wall_s=round(time.time() - t0, 2), out=out, rc=p.returncode)
    m = re.findall(r'(\d+) states generated, (\d+) distinct states found', out)
    if m:
        res['generated'], res['distinct'] = int(m[-1][0]), int(m[-1][1])
    else:
        m2 = re.findall(r'The number of states generated: (\d+)', out)
        res['generated'] = int(m2[-1]) if m2 else 0
        res['distinct'] = res['generated']
    m = re.search(r'The depth of the complete state graph search is (\d+)', out)
    res['depth'] = int(m.group(1)) if m else None
    if 'Invariant ' in out and ' is violated' in out:
        res['outcome'] = 'invariant'
        res['violated'] = re.findall(r'Invariant (\S+) is violated', out)
    elif 'Action property' in out and 'is violated' in out or 'Temporal properties were violated' in out:
        res['outcome'] = 'property'
    elif 'Deadlock reached' in out:
        res['outcome'] = 'deadlock'
    elif re.search(r'Assumption .* is false', out):
        res['outcome'] = 'assume'
    elif 'Model checking completed. No error has been found' in out or (simulate and p.returncode == 0) or \
            ('Finished computing initial states' not in out and p.returncode == 0):
        res['outcome'] = 'ok'
    elif p.returncode == 0:
        res['outcome'] = 'ok'
    else:
        res['outcome'] = 'error'
    shutil.rmtree(os.path.join(wd, 'meta'), ignore_errors=True)
    if record:
        chk.add_tlc(res)
    if res['outcome'] == 'error' or (res['outcome'] != 'ok' and not expect_violation):
        if res['outcome'] == 'error' or not expect_violation:
            tail = '\n'.join(out.splitlines()[-60:])
            raise TLCError(f'TLC {res["outcome"]} on {module} ({cfg}):\n{tail}')
    return res


def read_json(path):
    with open(path) as f:
        return json.load(f)


def read_ndjson(path):
    out = []
    with open(path) as f:
        for line in f:
            line = line.strip()
            if line:
                out.append(json.loads(line))
    return out


def pcal(module_path):
    p = subprocess.run(['java', '-cp', JAR, 'pcal.trans', '-nocfg', module_path], capture_output=True, text=True)
    if p.returncode != 0:
        raise TLCError(p.stdout + p.stderr)


def tla_seq(xs):
    """Python list -> TLA+ sequence literal (ints, strings, nested lists, bools)."""
    def f(x):
        if isinstance(x, bool):
            return 'TRUE' if x else 'FALSE'
        if isinstance(x, int):
            return str(x)
        if isinstance(x, str):
            return '"' + x + '"'
        if isinstance(x, (list, tuple)):
            return '<<' + ', '.join(f(y) for y in x) + '>>'
        if isinstance(x, dict):
            return '[' + ', '.join(f'{k} |-> {f(v)}' for k, v in x.items()) + ']'
        raise TypeError(x)
    return f(xs)
