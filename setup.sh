#!/bin/sh
# setup_cmd: offline. Installs scipy (needed by abacusnbody.analysis / hod) into /verif/.deps
# from the local wheelhouse, leaves /venv untouched, and sanity-checks the tools.
set -e
cd "$(dirname "$0")"
mkdir -p .deps .scratch evidence replays
if [ ! -d .deps/scipy ]; then
  /venv/bin/pip install -q --no-index --find-links /opt/veriftools/wheels --no-deps --target .deps scipy
fi
command -v tlc >/dev/null
PYTHONPATH=/repo:/verif/harness/shims:/verif/.deps /venv/bin/python -c "import scipy, numba, asdf, h5py; import abacusnbody.data.asdf"
echo setup ok
